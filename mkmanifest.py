#!/usr/bin/env python3
"""Writes /verif/MANIFEST.json from the tables below (single source, kept valid at all times)."""
import json, os
V = os.path.dirname(os.path.abspath(__file__))

NA = {
 "C02": "pure function of one packet (fragment, then reassemble in order): no schedule, fault, clock or carried state for a simulator to decide; the composed path is exercised as a by-product of C13 but the for-all-payload-lengths claim is input enumeration, not simulation",
 "C03": "encode->decode of one event value is a pure function of that value; nothing for a scheduler or fault injector to decide",
 "C04": "totality of two decoders over one byte string / one CAN frame is a pure input property; wire faults reach them only through a receiver, which is C06 (claimed)",
 "C05": "totality and exactness of 16 decoders over one packet is a pure input property with no state, I/O or interleaving",
 "C08": "the CAN identifier bit layout is a pure function of one frame / one 29-bit identifier",
 "C09": "the USART byte layout and COBS transparency are pure functions of one frame / one byte string",
 "C10": "the fragmentation layout is a pure function of one packet checked against a reference fragmenter: differential input testing, not simulation",
 "C11": "the published event byte layouts are pure functions of one event value / one packet",
 "C12": "uniqueness of the accepting decoder is a pure function of one packet and a constant table",
}

# id -> (level category, technique, level text, level note, design ref)
CHECKS = {
 "C13": ("exploration",
         "deterministic simulation: real sender+receiver over a simulated wire, seeded schedules of 'no data yet' at every device read, reference = sent sequence; plus enumerated single would-block sweep",
         "Seeded exploration of polling schedules x packet sequences x link kinds with the real send and receive paths of all three interfaces over simulated devices; every device read is a scheduling point decided from the tape. The oracle is the sent sequence itself (prefix at all times, equality at quiescence, no spurious error, exact unit consumption, bounded liveness once data has arrived). 40% of the runs are duplex (both endpoints are full link objects that send and poll), optionally with transmit back-pressure, optionally with failing sends of the receiving endpoint (whose own direction is then not judged: its reception must stay transparent). A deterministic sweep puts one would-block burst at every unit position of 12 two-packet sequences on each link. Sampling level: failures replay exactly from the minimised tape.",
         "Trusted: the simulated devices return only values the real drivers can return; FIFO lossless wire; whole frames eventually arrive. Not a proof.",
         "DESIGN.md §5 S-LINK / C13"),
 "C06": ("exploration",
         "deterministic simulation with wire fault injection: scripted hostile link-frame streams through the real receivers under seeded polling schedules, probe-packet oracle",
         "Seeded exploration of fault sequences on the wire (corrupted, wrongly sized, duplicated, reordered, interrupted, foreign frames; line noise; CAN overruns, standard/remote frames) x polling schedules x left-over receiver state x receiver restarts x sends made through the receiver object between polls, against the real try_get_packet of all three links; probes may be identical, differ in one respect, or be of the maximum size class. Oracle: every poll returns (no panic, overflow or out-of-bounds: checks are compiled in), no poll blocks once the script is exhausted, and after any prefix two back-to-back probe packets come out as [P1,P2] or as [P2] with an error reported on P1 - never altered, stitched or with P2 missing. Found and led to the repair of four defects (known_findings.txt).",
         "Trusted: result attribution by the last frame taken from the device; whole link frames only; the library's own encoders define what a valid frame is. Not a proof.",
         "DESIGN.md §5 S-LINK / C06"),
 "C19": ("exploration",
         "deterministic simulation over long hostile/clean traffic histories with a counting allocator (SUT/SIM domain tags) as observation point, measured after every poll",
         "Seeded exploration of long traffic histories (hundreds to tens of thousands of link frames per run, hostile and clean, incl. abandoned 4096-frame announcements and real 4096-frame packets) under seeded polling schedules; SUT-domain heap bytes are measured after every poll and the largest single SUT allocation during every poll. Oracle: bounded by fresh + 4 KiB + 96 B x announced size between polls, no more than a fresh receiver right after a delivery or reassembly error, no single allocation beyond what a one-byte length can announce unless explained by the packet in flight (judged even for a poll that never returns); never more than 4096 frames taken into one packet (over-long packets using the reserved id bit are generated); USART/serial device read errors injected at framing-aligned positions; nothing left when the receiver is dropped.",
         "Trusted: the counting allocator's domain attribution (devices and harness switch to SIM on entry); bounds are deliberately loose in the constant factors (36 B per frame real vs 96 B allowed). Not a proof.",
         "DESIGN.md §5 S-LINK / C19"),
 "C14": ("fault_enumeration",
         "deterministic simulation of the transmit-side devices: exhaustive single-fault placement (would-block burst, short write of every size, Interrupted, hard error, flush error, flush answered Interrupted 1-7 times in a row, displaced frame at every device call) plus seeded random reaction sequences",
         "For a fixed packet list x 3 links every single fault position is enumerated after a dry run that counts the device calls (exhaustive over that list only); on top, seeded exploration with random packets up to 4096 frames and random reaction mixes. A run sends one packet or a short sequence of related packets through the same sender object. Oracle: the stream the device accepted is always a prefix of the packets' frames (the library's own fragmenter/encoders define them), equal to it whenever Ok is returned, and on the serial port flushed successfully after the last write; write/flush failures and displaced frames yield Err; delays (would-block bursts up to 300 000, also on USART flush) and partial writes alone never make the call fail or block. Found and led to the repair of the short-write defect (known_findings.txt).",
         "Trusted: device models return only values the real drivers can return; the expected stream is defined by the library's own to_frames/encoders. Not a proof beyond the enumerated list.",
         "DESIGN.md §5 S-SEND / C14"),
 "C07": ("exploration",
         "deterministic simulation of a faulty frame channel (drop, duplicate, reorder, rewrite, inject, late frames) into the real PacketBuilder, lock-step acceptance model",
         "Seeded exploration of frame histories through a lossy/duplicating/reordering/corrupting channel into the real reassembler, compared step by step with an acceptance model written from the property statement: constructor accepts exactly start frames, add_frame accepts exactly the next frame of the same packet, a rejection carries a reason that truly applies and leaves every observer (counts, build result) unchanged, accounting never underflows, build completes exactly at the announced count, is repeatable, and yields the in-order concatenation of the accepted payloads.",
         "Trusted: the acceptance model (40 lines, from the statement); frames have at most 8 data bytes and start frames announce at most 4096 frames, continuation frames may carry any 16-bit id. Not a proof.",
         "DESIGN.md §5 S-BUILDER / C07"),
 "C15": ("exploration",
         "deterministic simulation: real Protocol over a scripted link with injected link results (every error kind), generated add/remove/tick/send histories, lock-step model, registry arbitration",
         "Seeded exploration of operation histories against the real Protocol over a scripted Interface: every tick is compared with the model - at most one packet taken, each eligible handler exactly once with the unmodified packet (all handlers for own/broadcast address, capture-all handlers otherwise), 'nothing received' is Ok without calls, every link error value comes back unchanged without calls, transmissions made by handlers from inside the delivery reach the link and do not disturb the fan-out. A missing handler is attributed by asking the registry itself, so registry defects are not reported here.",
         "Trusted: the 40-line Protocol model; InterfaceError compared by debug image. Not a proof.",
         "DESIGN.md §5 S-NODE / C15"),
 "C16": ("exploration",
         "deterministic simulation: real Protocol over a scripted link with injected send outcomes, generated histories, lock-step routing model",
         "Seeded exploration of the same histories; every send_packet is compared with the routing rule: own-address destination loops back to every local handler once and reaches the link only if the own address is broadcast; any other destination reaches the link exactly once, unmodified, with no local handler; the link's send outcome (Ok or any of 31 error values) is returned to the caller. One handler of a table may continue an own-address send up to 40 levels deep (nested sends from inside the delivery): every level must reach every other local handler exactly once; whether the running handler is re-entered, skipped or deferred is left open.",
         "Trusted: the routing model; send outcomes are pinned only when no handler transmits before the request itself. Not a proof.",
         "DESIGN.md §5 S-NODE / C16"),
 "C17": ("exploration",
         "deterministic simulation: generated register/remove histories interleaved with reveal deliveries on two independent paths, final registry sweep",
         "Seeded exploration of registry-heavy histories (remove from the middle, id reuse, stale and never-issued ids). Ids returned by add must differ from every live id; after every registry operation a reveal delivery through tick and through loop-back send determines the live set (a handler is live if it fires on either path; a handler that fires on neither is attributed by asking the registry); removed handlers must never fire again on any delivery of the run; removing unregistered ids (incl. ids that alias a live id under truncation or masking) must report NoSuchHandler and change nothing; tables of up to 260 handlers; bursts of 10-29 removals followed by additions with no delivery in between; a twin node that gets a delivery after every registry operation separates handlers lost to the operation history from static dispatch defects; at the end every id ever seen is removed once more and must answer as the model says.",
         "Trusted: the registry model (a map); liveness is observed through deliveries and through remove's own answer. Not a proof.",
         "DESIGN.md §5 S-NODE / C17"),
 "C18": ("exploration",
         "deterministic simulation: real exchange_packet(s) over a scripted link with generated incoming queues and injected link/send errors; routing compared differentially with an ordinary send on a twin node; wait callback position in the global event sequence",
         "Seeded exploration of exchanges over all 16 requested kinds and three application-defined kinds (error-accepting, zero-sized, 256-byte value), both forms, both capture modes, all own-address classes and generated incoming queues (matching, wrong kind, wrong address, error-flagged, wrongly sized, 'nothing', any of 30 link errors, later traffic; queues of up to 12 000 entries; entries that arrive only during the wait callback; an exchange performed by a handler while the request is being routed). Oracle: routing effects (those before the wait callback) equal those of an ordinary send of the same request on an identically built twin node; the wait callback runs exactly once, after the routing effects and before the first poll; single form returns the first matching entry in arrival order and leaves everything after it on the link; multi form returns all matches in order and drains up to the first dry answer; timeout / empty list when nothing matches; link and send errors propagate.",
         "Trusted: the library's own decoder defines 'decodes as the requested kind'; inputs that crash a decoder (C05's subject) are not generated. Not a proof.",
         "DESIGN.md §5 S-NODE / C18"),
 "C01": ("exploration",
         "deterministic simulation: two real nodes (Protocol over the real CAN/USART/serial interfaces) on a simulated reliable wire, seeded interleavings of sends, ticks of both nodes and device-level 'no data yet', handler logs against the sent sequence",
         "Seeded exploration of event sequences (all 16 kinds, arbitrary field values, single- and multi-frame incl. 4096 frames) x address pairs (incl. broadcast) x handler-table mixes x all three links x interleavings of data arrival with polling, with traffic in both directions when handlers acknowledge; swarm options: receiver handler tables with a registration history (34-66 handlers, removals, later additions), broadcasts sent by a node whose own address is broadcast, transmit back-pressure, long no-data pauses sat out tick by tick. After every step every handler's log must be a prefix of exactly the events addressed to it (or all events for capture-all handlers), each decoding to the sent value; at quiescence logs equal expectations: once, in order, nothing that was not sent; all sends/ticks Ok; bounded ticks to quiescence once data has arrived.",
         "Trusted: reliable FIFO wire; simulated devices return only values the real drivers can return. Not a proof.",
         "DESIGN.md §5 S-E2E / C01"),
}

PENDING = {}

def cmd(pid, tier):
    return "./check %s %s" % (pid, tier)

m = {
 "version": 1,
 "setup_cmd": "./check build",
 "hooks": {
   "guard": "none",
   "enable": "no hooks: every seam is reachable from outside the crate (type parameters, trait objects, a substitute bxcan crate selected by the shadow manifest /verif/sim/ross-shadow/Cargo.toml, which points [lib] path at /repo/src/lib.rs; the clock seam is libc symbol interposition inside the simulator binary)",
   "baseline_off_cmd": "cd /repo && cargo test --workspace --no-fail-fast --offline",
   "source_commits": [],
   "add_only": True,
 },
 "engines": [{
   "name": "rosssim",
   "path": "/verif/sim",
   "serves_properties": sorted(CHECKS),
   "kind_free_text": "single-process deterministic simulator: decision tape (one seed decides every schedule choice, fault and generated operation), simulated CAN/USART/serial-port devices and wire, scripted link under Protocol, counting allocator, interposed process clock (clock_gettime / nanosleep answer from simulated time while control is inside the library), reference models as oracles, in-process tape shrinking, fresh-process replay",
 }],
 "checks": [],
 "not_applicable": [],
 "notes": "Technique family: deterministic simulation with fault injection. Fixes to /repo are separate 'fix:' commits listed in /verif/known_findings.txt. setup_cmd builds the simulator twice from /repo's working tree (optimised, and unoptimised for a 1-in-25 slice of every check's runs with a 2 MiB stack). Independent property-breaking changes and behaviour-preserving variants with what the checks say about them: /verif/seeded, /verif/variants. See DESIGN.md and README.md.",
}
for pid in sorted(CHECKS):
    level, tech, text, note, ref = CHECKS[pid]
    m["checks"].append({
        "property_id": pid,
        "quick_cmd": cmd(pid, "quick"),
        "thorough_cmd": cmd(pid, "thorough"),
        "evidence_file": "/verif/evidence/%s.json" % pid,
        "replay_cmd_template": "./check %s --replay {path}" % pid,
        "engine": "rosssim",
        "level_claimed": {"category": level, "text": text, "design_ref": ref},
        "level_note": note,
        "technique": tech,
    })
for pid in sorted(NA):
    m["not_applicable"].append({"property_id": pid, "reason": NA[pid]})
for pid in sorted(PENDING):
    m["not_applicable"].append({"property_id": pid, "reason": PENDING[pid]})
json.dump(m, open(os.path.join(V, "MANIFEST.json"), "w"), indent=1)
print("MANIFEST.json written: %d checks, %d not_applicable" % (len(m["checks"]), len(m["not_applicable"])))
