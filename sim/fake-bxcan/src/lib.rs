//! Substitute for the `bxcan` driver crate used only by the simulator.
//!
//! `Frame`, `Id`, `ExtendedId`, `StandardId`, `Data` are the *real* bxcan 0.4.0
//! types (so `ross-protocol/src/frame.rs` is compiled against the real frame
//! representation). Only the peripheral driver `Can<I>` is replaced: its
//! `receive` / `transmit` have the real signatures and forward to a
//! simulator-owned device.
#![no_std]

use core::convert::Infallible;

pub use real_bxcan::{Data, ExtendedId, Frame, Id, StandardId};

/// Simulated CAN controller instance. The real trait is an `unsafe` marker
/// trait over a register block; here it is the seam itself.
pub trait Instance {
    fn sim_receive(&mut self) -> nb::Result<Frame, ()>;
    fn sim_transmit(&mut self, frame: &Frame) -> nb::Result<Option<Frame>, Infallible>;
}

pub struct Can<I: Instance> {
    instance: I,
}

impl<I: Instance> Can<I> {
    pub fn new(instance: I) -> Self {
        Can { instance }
    }

    pub fn instance(&mut self) -> &mut I {
        &mut self.instance
    }

    pub fn free(self) -> I {
        self.instance
    }

    pub fn transmit(&mut self, frame: &Frame) -> nb::Result<Option<Frame>, Infallible> {
        self.instance.sim_transmit(frame)
    }

    pub fn receive(&mut self) -> nb::Result<Frame, ()> {
        self.instance.sim_receive()
    }
}
