//! The decision tape: the single source of every choice made in a run.
//!
//! generate mode: values come from xoshiro256** seeded from
//! (VERIF_SEED, property, run index) and are recorded;
//! replay mode: values are read back from a recorded list (clamped to the
//! bound; an exhausted tape yields 0, which is always the simplest choice).

#[derive(Clone)]
pub struct Xoshiro {
    s: [u64; 4],
}

fn splitmix(x: &mut u64) -> u64 {
    *x = x.wrapping_add(0x9e3779b97f4a7c15);
    let mut z = *x;
    z = (z ^ (z >> 30)).wrapping_mul(0xbf58476d1ce4e5b9);
    z = (z ^ (z >> 27)).wrapping_mul(0x94d049bb133111eb);
    z ^ (z >> 31)
}

impl Xoshiro {
    pub fn new(seed: u64) -> Self {
        let mut x = seed;
        let s = [
            splitmix(&mut x),
            splitmix(&mut x),
            splitmix(&mut x),
            splitmix(&mut x),
        ];
        Xoshiro { s }
    }

    pub fn next(&mut self) -> u64 {
        let r = self.s[1].wrapping_mul(5).rotate_left(7).wrapping_mul(9);
        let t = self.s[1] << 17;
        self.s[2] ^= self.s[0];
        self.s[3] ^= self.s[1];
        self.s[1] ^= self.s[2];
        self.s[0] ^= self.s[3];
        self.s[2] ^= t;
        self.s[3] = self.s[3].rotate_left(45);
        r
    }

    pub fn below(&mut self, bound: u32) -> u32 {
        // multiply-shift; the tiny bias is irrelevant here and keeps it branch-free
        (((self.next() >> 32) * bound as u64) >> 32) as u32
    }
}

/// Mixes the base seed with a property tag and the run index into the tape seed.
pub fn mix_seed(base: u64, prop: &str, run: u64) -> u64 {
    let mut h: u64 = 0xcbf29ce484222325 ^ base.wrapping_mul(0x9e3779b97f4a7c15);
    for b in prop.bytes() {
        h ^= b as u64;
        h = h.wrapping_mul(0x100000001b3);
    }
    h ^= run.wrapping_mul(0xd6e8feb86659fd93);
    let mut x = h;
    splitmix(&mut x)
}

pub struct Tape {
    replay: Option<Vec<u32>>,
    pos: usize,
    rng: Xoshiro,
    pub rec: Vec<u32>,
}

impl Tape {
    pub fn generate(seed: u64) -> Self {
        Tape {
            replay: None,
            pos: 0,
            rng: Xoshiro::new(seed),
            rec: Vec::new(),
        }
    }

    pub fn replay(values: Vec<u32>) -> Self {
        Tape {
            replay: Some(values),
            pos: 0,
            rng: Xoshiro::new(0),
            rec: Vec::new(),
        }
    }

    /// Generate mode with a forced prefix (used by the fault enumeration: the
    /// prefix fixes the case, the rest of the run is drawn as usual).
    pub fn draw(&mut self, bound: u32) -> u32 {
        let bound = bound.max(1);
        let v = match &self.replay {
            Some(vals) => {
                let v = vals.get(self.pos).copied().unwrap_or(0);
                self.pos += 1;
                v.min(bound - 1)
            }
            None => self.rng.below(bound),
        };
        self.rec.push(v);
        v
    }

    pub fn draws(&self) -> usize {
        self.rec.len()
    }
}
