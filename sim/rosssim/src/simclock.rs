//! The clock seam. The library has no clock, timer or sleep today, and no property speaks
//! about time - but a changed library may start to read the clock or to sleep (a retry with
//! back-off, an idle time-out, a "wake-up byte after two seconds of silence"), and a simulated
//! run lasts microseconds of real time. So the simulator owns the clock of the process as far
//! as the system under test is concerned: `clock_gettime`, `nanosleep` and `clock_nanosleep` are
//! *interposed* (the executable's own definitions take precedence over libc's for every caller
//! linked into it, the statically linked Rust std included). While control is inside
//! ross-protocol code (allocation domain SUT) they answer from a simulated clock that advances
//! one millisecond per simulation event plus the idle gaps the tape draws between top-level
//! calls, and a sleep returns at once after advancing it; outside (harness, shrinking budget,
//! devices) they are forwarded to the kernel by raw system calls. No hook in /repo is needed.
//! The simulated clock restarts at a fixed epoch with every run, so a run stays a pure
//! function of its tape.

use std::sync::atomic::{AtomicU64, Ordering::Relaxed};

const EPOCH_NS: u64 = 1_000_000_000_000_000; // 10^6 s
pub const NS_PER_EVENT: u64 = 1_000_000; // 1 ms

static SIM_NS: AtomicU64 = AtomicU64::new(EPOCH_NS);
static CLOCK_READS: AtomicU64 = AtomicU64::new(0);
static SLEEPS: AtomicU64 = AtomicU64::new(0);

#[repr(C)]
pub struct Timespec {
    tv_sec: i64,
    tv_nsec: i64,
}

extern "C" {
    fn syscall(num: i64, ...) -> i64;
}
const SYS_NANOSLEEP: i64 = 35;
const SYS_CLOCK_GETTIME: i64 = 228;
const SYS_CLOCK_NANOSLEEP: i64 = 230;

pub fn reset() {
    SIM_NS.store(EPOCH_NS, Relaxed);
}

pub fn advance(ns: u64) {
    SIM_NS.fetch_add(ns, Relaxed);
}

/// (clock reads, sleeps) made by the system under test since the last call.
pub fn take_counts() -> (u64, u64) {
    (CLOCK_READS.swap(0, Relaxed), SLEEPS.swap(0, Relaxed))
}

fn in_sut() -> bool {
    crate::alloc::domain() == crate::alloc::SUT
}

/// # Safety
/// Same contract as the libc function it stands in for.
#[no_mangle]
pub unsafe extern "C" fn clock_gettime(clk: i32, ts: *mut Timespec) -> i32 {
    if in_sut() && !ts.is_null() {
        let ns = SIM_NS.load(Relaxed);
        (*ts).tv_sec = (ns / 1_000_000_000) as i64;
        (*ts).tv_nsec = (ns % 1_000_000_000) as i64;
        CLOCK_READS.fetch_add(1, Relaxed);
        return 0;
    }
    syscall(SYS_CLOCK_GETTIME, clk as i64, ts) as i32
}

unsafe fn sleep_simulated(req: *const Timespec) {
    if !req.is_null() {
        let s = (*req).tv_sec.max(0) as u64;
        let n = (*req).tv_nsec.max(0) as u64;
        advance(s.saturating_mul(1_000_000_000).saturating_add(n));
    }
    SLEEPS.fetch_add(1, Relaxed);
}

/// # Safety
/// Same contract as the libc function it stands in for.
#[no_mangle]
pub unsafe extern "C" fn nanosleep(req: *const Timespec, rem: *mut Timespec) -> i32 {
    if in_sut() {
        sleep_simulated(req);
        return 0;
    }
    syscall(SYS_NANOSLEEP, req, rem) as i32
}

/// # Safety
/// Same contract as the libc function it stands in for.
#[no_mangle]
pub unsafe extern "C" fn clock_nanosleep(clk: i32, flags: i32, req: *const Timespec, rem: *mut Timespec) -> i32 {
    if in_sut() {
        if flags & 1 != 0 {
            // TIMER_ABSTIME: sleep until the given instant of the simulated clock
            if !req.is_null() {
                let target = ((*req).tv_sec.max(0) as u64).saturating_mul(1_000_000_000).saturating_add((*req).tv_nsec.max(0) as u64);
                let now = SIM_NS.load(Relaxed);
                if target > now {
                    advance(target - now);
                }
            }
            SLEEPS.fetch_add(1, Relaxed);
        } else {
            sleep_simulated(req);
        }
        return 0;
    }
    // (returns the error number directly, not -1/errno)
    let r = syscall(SYS_CLOCK_NANOSLEEP, clk as i64, flags as i64, req, rem);
    if r < 0 {
        (-r) as i32
    } else {
        r as i32
    }
}
