//! S-SEND: the real `try_send_packet` of each link against a device that
//! reacts - would-block, short write, Interrupted, hard I/O error, flush
//! error, displaced CAN frame. Decides C14 (single-fault enumeration plus
//! seeded exploration).

use crate::dev::{can_eq, show_can, AnyLink, CanUnit, Dev, LinkKind, TxFault, TxPolicy, Wire};
use crate::gen::{fill_pattern, gen_packet, SizeCfg};
use crate::link_hostile::{encode, frames_of, panic_site, Unit};
use crate::scenario::{fail, send, Outcome, Tier};
use crate::sim::{hex, show_packet, Crash, Sim};
use ross_protocol::packet::Packet;

pub const ENUM_SIZES_QUICK: [usize; 7] = [0, 3, 8, 9, 14, 15, 22];
pub const ENUM_SIZES_THOROUGH: [usize; 40] = [
    0, 1, 2, 3, 4, 5, 6, 7, 8, 9, 10, 11, 12, 13, 14, 15, 16, 17, 18, 19, 20, 21, 22, 23, 24, 25, 26, 27, 28, 29, 30, 35, 36, 49, 50, 56, 57,
    63, 64, 70,
];
pub const BURSTS: [u32; 3] = [1, 2, 50];

pub fn enum_sizes(tier: Tier) -> &'static [usize] {
    match tier {
        Tier::Quick => &ENUM_SIZES_QUICK,
        Tier::Thorough => &ENUM_SIZES_THOROUGH,
    }
}

/// Number of placed-fault kinds per link (see `placed_fault`).
pub fn placed_kinds(kind: LinkKind) -> u32 {
    match kind {
        LinkKind::Serial => 4,
        LinkKind::Usart => 1,
        LinkKind::Can => 2,
    }
}

fn placed_fault(kind: LinkKind, fk: u32, arg: u32) -> TxFault {
    match (kind, fk) {
        (LinkKind::Serial, 0) => TxFault::HardError((arg % 3) as u8),
        (LinkKind::Serial, 1) => TxFault::Short(1 + arg),
        (LinkKind::Serial, 2) => TxFault::Interrupted,
        (LinkKind::Serial, _) => TxFault::FlushError((arg % 3) as u8),
        (LinkKind::Usart, _) => TxFault::WouldBlock(BURSTS[(arg % 3) as usize]),
        (LinkKind::Can, 0) => TxFault::WouldBlock(BURSTS[(arg % 3) as usize]),
        (LinkKind::Can, _) => TxFault::Displaced,
    }
}

pub fn run(sim: &Sim, prop: &str, tier: Tier) -> Outcome {
    let placed_mode = sim.draw(8) == 1;
    let kind = LinkKind::from_index(sim.draw(3));
    let wire = Wire::new(kind);
    let back = Wire::new(kind);

    let packet: Packet;
    let mut any_fault_configured = false;
    if placed_mode {
        let sizes = enum_sizes(tier);
        let len = sizes[sim.draw(sizes.len() as u32) as usize];
        packet = Packet {
            is_error: len % 2 == 1,
            device_address: 0x0a0b,
            data: fill_pattern(6, 5, len),
        };
        let fk = sim.draw(placed_kinds(kind));
        let pos = sim.draw(4096);
        let arg = sim.draw(256);
        // position 4095 = no fault at all (the dry run that counts the device calls)
        if pos != 4095 {
            wire.borrow_mut().tx.placed = Some((pos, placed_fault(kind, fk, arg)));
            any_fault_configured = true;
        }
    } else {
        let sizes = match (tier, sim.draw(40)) {
            (Tier::Quick, 39) => SizeCfg { large_pct: 30, huge_pct: 0 },
            (Tier::Thorough, 37..=39) => SizeCfg { large_pct: 20, huge_pct: 15 },
            (Tier::Thorough, 34..=36) => SizeCfg { large_pct: 30, huge_pct: 0 },
            _ => SizeCfg { large_pct: 0, huge_pct: 0 },
        };
        packet = gen_packet(sim, sizes, &[0x0a0b]);
        let mut p = TxPolicy::benign();
        match kind {
            LinkKind::Usart => {
                p.wb = sim.pick(&[0u32, 10, 50, 90]);
                p.wb_burst = sim.pick(&[1u32, 3, 50]);
            }
            LinkKind::Can => {
                p.wb = sim.pick(&[0u32, 10, 50, 90]);
                p.wb_burst = sim.pick(&[1u32, 3, 50]);
                p.displaced = sim.pick(&[0u32, 0, 1, 10]);
            }
            LinkKind::Serial => {
                p.short = sim.pick(&[0u32, 30, 90]);
                p.interrupted = sim.pick(&[0u32, 0, 10, 40]);
                p.hard = sim.pick(&[0u32, 0, 1, 5]);
                p.flush_err = sim.pick(&[0u32, 0, 20]);
            }
        }
        any_fault_configured = p.wb + p.displaced + p.short + p.interrupted + p.hard + p.flush_err > 0;
        // rarely: one very long would-block burst before one early unit ("any number of times")
        let placed = if kind != LinkKind::Serial && sim.chance(3) {
            sim.probe("long_would_block_burst");
            Some((sim.draw(40), TxFault::WouldBlock(sim.pick(&[12_000u32, 70_000, 300_000]))))
        } else {
            None
        };
        wire.borrow_mut().tx = TxPolicy { placed, ..p };
    }

    // expected stream: the library's own fragmenter and frame encoders define "its frames"
    let rfs = match frames_of(&packet) {
        Ok(r) => r,
        Err(e) => return Outcome::Foreign("C10.encode", e.0),
    };
    let mut exp_bytes: Vec<u8> = Vec::new();
    let mut exp_frames: Vec<bxcan::Frame> = Vec::new();
    for rf in &rfs {
        match encode(kind, rf) {
            Ok(Unit::Body(b)) => {
                exp_bytes.push(0x00);
                exp_bytes.push(b.len() as u8);
                exp_bytes.extend_from_slice(&b);
            }
            Ok(Unit::Can(CanUnit::Frame(f))) => exp_frames.push(f),
            Ok(_) => {}
            Err(e) => return Outcome::Foreign("C09.encode", e.0),
        }
    }

    sim.set_sample(|| {
        format!(
            "link={} {} packet={} policy={:?}",
            kind.name(),
            if placed_mode { "single placed fault" } else { "random reactions" },
            show_packet(&packet),
            wire.borrow().tx
        )
    });

    let mut tx = AnyLink::new(kind, Dev::new(sim, "tx", &back, &wire));
    let res = send(sim, "tx", &mut tx, &packet);
    let w = wire.borrow();
    sim.count_n("tx_calls", w.tx_calls as u64);
    sim.count_n("flush_calls", w.flush_calls as u64);
    let sig = |what: &str| format!("{}:{}", kind.name(), what);

    // reach probes: which reactions actually fired
    if w.tx_wb_total > 0 {
        sim.probe("fired_would_block");
    }
    if w.tx_short > 0 {
        sim.probe("fired_short_write");
    }
    if w.tx_interrupted > 0 {
        sim.probe("fired_interrupted");
    }
    if w.tx_hard_errors > 0 {
        sim.probe("fired_hard_write_error");
    }
    if w.tx_flush_errors > 0 {
        sim.probe("fired_flush_error");
    }
    if w.tx_displaced > 0 {
        sim.probe("fired_displaced_frame");
    }
    if rfs.len() > 1 {
        sim.probe("multi_frame_packet");
    }
    if rfs.len() > 256 {
        sim.probe("frame_id_over_255");
    }
    let _ = any_fault_configured;

    // ---- what the device accepted vs. what was to be sent
    let (is_prefix, is_equal, accepted_n, expected_n, first_diff) = if kind.is_bytes() {
        let n = w.bytes.len().min(exp_bytes.len());
        let diff = (0..n).find(|&i| w.bytes[i] != exp_bytes[i]);
        (
            diff.is_none() && w.bytes.len() <= exp_bytes.len(),
            diff.is_none() && w.bytes.len() == exp_bytes.len(),
            w.bytes.len(),
            exp_bytes.len(),
            diff.unwrap_or(n),
        )
    } else {
        let acc: Vec<&bxcan::Frame> = w
            .cframes
            .iter()
            .filter_map(|u| match u {
                CanUnit::Frame(f) => Some(f),
                _ => None,
            })
            .collect();
        let n = acc.len().min(exp_frames.len());
        let diff = (0..n).find(|&i| !can_eq(acc[i], &exp_frames[i]));
        (
            diff.is_none() && acc.len() <= exp_frames.len(),
            diff.is_none() && acc.len() == exp_frames.len(),
            acc.len(),
            exp_frames.len(),
            diff.unwrap_or(n),
        )
    };
    let show_around = |i: usize| -> String {
        if kind.is_bytes() {
            let a = i.saturating_sub(4);
            format!(
                "accepted[{}..]={} expected[{}..]={}",
                a,
                hex(&w.bytes[a.min(w.bytes.len())..(i + 8).min(w.bytes.len())]),
                a,
                hex(&exp_bytes[a.min(exp_bytes.len())..(i + 8).min(exp_bytes.len())])
            )
        } else {
            let acc = w.cframes.get(i).map(|u| match u {
                CanUnit::Frame(f) => show_can(f),
                _ => "-".into(),
            });
            format!("accepted[{}]={:?} expected[{}]={:?}", i, acc, i, exp_frames.get(i).map(show_can))
        }
    };

    match &res {
        Err(Crash::Blocked) => {
            return fail(
                prop,
                "C14.term",
                format!("try_send_packet never returns although the device accepts after finitely many would-blocks ({})", kind.name()),
                sig("blocked"),
            )
        }
        Err(Crash::Panic(m)) => {
            return fail(
                prop,
                "C14.exact",
                format!("sender panicked for {}: {}", show_packet(&packet), m),
                sig(&format!("panic:{}", panic_site(m))),
            )
        }
        _ => {}
    }
    if !is_prefix {
        return fail(
            prop,
            "C14.prefix",
            format!(
                "the stream the device accepted is not a prefix of the packet's frames (accepted {} of {} units, first difference at {}): {}",
                accepted_n,
                expected_n,
                first_diff,
                show_around(first_diff)
            ),
            sig("not-a-prefix"),
        );
    }
    let ok = matches!(res, Ok(Ok(())));
    if ok && !is_equal {
        return fail(
            prop,
            "C14.exact",
            format!(
                "try_send_packet returned Ok but the device accepted only {} of {} units: {}",
                accepted_n,
                expected_n,
                show_around(accepted_n)
            ),
            sig("ok-but-incomplete"),
        );
    }
    let hard = w.tx_hard_errors + w.tx_flush_errors + w.tx_displaced;
    if ok && hard > 0 {
        return fail(
            prop,
            "C14.err",
            format!(
                "the device reported {} write error(s), {} flush error(s), {} displaced frame(s) but try_send_packet returned Ok",
                w.tx_hard_errors, w.tx_flush_errors, w.tx_displaced
            ),
            sig(if w.tx_displaced > 0 {
                "displaced-ignored"
            } else if w.tx_flush_errors > 0 {
                "flush-error-ignored"
            } else {
                "write-error-ignored"
            }),
        );
    }
    if !ok && hard == 0 && w.tx_interrupted == 0 {
        return fail(
            prop,
            "C14.exact",
            format!(
                "try_send_packet gave up with {:?} although the device only delayed (would-block x{}) or accepted partial writes (x{}); accepted {} of {} units",
                res, w.tx_wb_total, w.tx_short, accepted_n, expected_n
            ),
            sig("spurious-error"),
        );
    }
    if ok {
        sim.count("sent_ok");
    } else {
        sim.count("sent_err_reported");
    }
    Outcome::Pass
}
