//! S-SEND: the real `try_send_packet` of each link against a device that
//! reacts - would-block, short write, Interrupted, hard I/O error, flush
//! error, displaced CAN frame. Decides C14 (single-fault enumeration plus
//! seeded exploration). A run sends one packet, or a short sequence of related
//! packets through the same sender object.

use crate::dev::{can_eq, show_can, AnyLink, CanUnit, Dev, LinkKind, TxFault, TxPolicy, Wire};
use crate::gen::{fill_pattern, gen_packet, SizeCfg};
use crate::link_hostile::{encode, frames_of, panic_site, Unit};
use crate::scenario::{fail, Outcome, Tier};
use crate::sim::{hex, show_packet, Crash, Sim};
use ross_protocol::packet::Packet;

pub const ENUM_SIZES_QUICK: [usize; 7] = [0, 3, 8, 9, 14, 15, 22];
pub const ENUM_SIZES_THOROUGH: [usize; 40] = [
    0, 1, 2, 3, 4, 5, 6, 7, 8, 9, 10, 11, 12, 13, 14, 15, 16, 17, 18, 19, 20, 21, 22, 23, 24, 25, 26, 27, 28, 29, 30, 35, 36, 49, 50, 56, 57,
    63, 64, 70,
];
pub const BURSTS: [u32; 3] = [1, 2, 50];
/// placed `Interrupted` answers of `flush`: this many in a row
pub const FLUSH_INTR_RUNS: [u32; 5] = [1, 2, 3, 4, 7];

pub fn enum_sizes(tier: Tier) -> &'static [usize] {
    match tier {
        Tier::Quick => &ENUM_SIZES_QUICK,
        Tier::Thorough => &ENUM_SIZES_THOROUGH,
    }
}

/// Number of placed-fault kinds per link (see `placed_fault`).
pub fn placed_kinds(kind: LinkKind) -> u32 {
    match kind {
        LinkKind::Serial => 6,
        LinkKind::Usart => 1,
        LinkKind::Can => 2,
    }
}

fn placed_fault(kind: LinkKind, fk: u32, arg: u32) -> TxFault {
    match (kind, fk) {
        (LinkKind::Serial, 0) => TxFault::HardError((arg % 3) as u8),
        (LinkKind::Serial, 1) => TxFault::Short(1 + arg),
        (LinkKind::Serial, 2) => TxFault::Interrupted,
        (LinkKind::Serial, 3) => TxFault::FlushError((arg % 3) as u8),
        (LinkKind::Serial, 4) => TxFault::FlushInterrupted(FLUSH_INTR_RUNS[(arg % 5) as usize]),
        (LinkKind::Serial, _) => TxFault::Zero,
        (LinkKind::Usart, _) => TxFault::WouldBlock(BURSTS[(arg % 3) as usize]),
        (LinkKind::Can, 0) => TxFault::WouldBlock(BURSTS[(arg % 3) as usize]),
        (LinkKind::Can, _) => TxFault::Displaced,
    }
}

pub fn run(sim: &Sim, prop: &str, tier: Tier) -> Outcome {
    let placed_mode = sim.draw(8) == 1;
    let kind = LinkKind::from_index(sim.draw(3));
    let wire = Wire::new(kind);
    let back = Wire::new(kind);

    let mut packets: Vec<Packet> = Vec::new();
    if placed_mode {
        let sizes = enum_sizes(tier);
        let len = sizes[sim.draw(sizes.len() as u32) as usize];
        packets.push(Packet {
            is_error: len % 2 == 1,
            device_address: 0x0a0b,
            data: fill_pattern(6, 5, len),
        });
        let fk = sim.draw(placed_kinds(kind));
        let pos = sim.draw(4096);
        let arg = sim.draw(256);
        // position 4095 = no fault at all (the dry run that counts the device calls)
        if pos != 4095 {
            wire.borrow_mut().tx.placed = Some((pos, placed_fault(kind, fk, arg)));
        }
    } else {
        let sizes = match (tier, sim.draw(200)) {
            (Tier::Quick, 199) => SizeCfg { large_pct: 10, huge_pct: 40 },
            (Tier::Quick, 190..=198) => SizeCfg { large_pct: 30, huge_pct: 0 },
            (Tier::Thorough, 185..=199) => SizeCfg { large_pct: 20, huge_pct: 15 },
            (Tier::Thorough, 170..=184) => SizeCfg { large_pct: 30, huge_pct: 0 },
            _ => SizeCfg { large_pct: 0, huge_pct: 0 },
        };
        let first = gen_packet(sim, sizes, &[0x0a0b]);
        packets.push(first.clone());
        // very rarely: so many maximum-size packets through one sender object that anything
        // counting frames or bytes in 16 bits wraps
        if sim.draw(30_000) == 29_999 {
            for i in 0..18u32 {
                packets.push(Packet {
                    is_error: false,
                    device_address: 0x0a0b,
                    data: fill_pattern(0, i, 28672),
                });
            }
            sim.probe("over_65536_frames_through_one_sender");
        }
        // a short sequence of *related* packets through the same sender object
        if sim.chance(30) {
            let more = 1 + sim.draw(3);
            for _ in 0..more {
                let mut p = packets[sim.draw(packets.len() as u32) as usize].clone();
                match sim.draw(5) {
                    0 => p.is_error = !p.is_error,
                    1 => p.device_address = p.device_address.wrapping_add(1),
                    2 => {
                        if let Some(b) = p.data.last_mut() {
                            *b ^= 0x01;
                        }
                    }
                    3 => {
                        if p.data.len() < 28672 {
                            p.data.push(0x5a);
                        }
                    }
                    _ => p = gen_packet(sim, SizeCfg { large_pct: 0, huge_pct: 0 }, &[0x0a0b]),
                }
                packets.push(p);
            }
        }
        let mut p = TxPolicy::benign();
        match kind {
            LinkKind::Usart => {
                p.wb = sim.pick(&[0u32, 10, 50, 90]);
                p.wb_burst = sim.pick(&[1u32, 3, 50]);
            }
            LinkKind::Can => {
                p.wb = sim.pick(&[0u32, 10, 50, 90]);
                p.wb_burst = sim.pick(&[1u32, 3, 50]);
                p.displaced = sim.pick(&[0u32, 0, 1, 10]);
            }
            LinkKind::Serial => {
                p.short = sim.pick(&[0u32, 30, 90]);
                p.interrupted = sim.pick(&[0u32, 0, 10, 40]);
                p.zero = sim.pick(&[0u32, 0, 0, 5, 30]);
                p.hard = sim.pick(&[0u32, 0, 1, 5]);
                p.flush_err = sim.pick(&[0u32, 0, 20]);
                p.flush_intr = sim.pick(&[0u32, 0, 50, 90]);
                p.flush_intr_cap = sim.pick(&[1u32, 3, 8]);
            }
        }
        // rarely: one very long would-block burst before one early unit ("any number of times")
        let placed = if kind != LinkKind::Serial && sim.chance(3) {
            sim.probe("long_would_block_burst");
            Some((sim.draw(40), TxFault::WouldBlock(sim.pick(&[12_000u32, 70_000, 300_000]))))
        } else {
            None
        };
        wire.borrow_mut().tx = TxPolicy { placed, ..p };
        if kind == LinkKind::Serial {
            // what the port object says about flow control and modem status lines must not
            // change what "sent" means
            let mut w = wire.borrow_mut();
            w.flow_control = sim.pick(&[0u8, 0, 1, 2]);
            w.line_low_pct = sim.pick(&[0u32, 0, 50, 100]);
        }
    }

    sim.set_sample(|| {
        format!(
            "link={} {} packets=[{}] policy={:?}",
            kind.name(),
            if placed_mode { "single placed fault" } else { "random reactions" },
            packets.iter().map(show_packet).collect::<Vec<_>>().join(", "),
            wire.borrow().tx
        )
    });

    let mut tx = AnyLink::new(kind, Dev::new(sim, "tx", &back, &wire));
    let sig = |what: &str| format!("{}:{}", kind.name(), what);
    // the sender object may have a receive history (it is a full link endpoint): traffic,
    // line noise, a frame cut short by a device error - none of it may leak into what it sends
    if !placed_mode && kind.is_bytes() && sim.chance(15) {
        let mut pre: Vec<crate::link_hostile::Item> = Vec::new();
        let p = Packet {
            is_error: false,
            device_address: 0x0c0d,
            data: fill_pattern(3, sim.draw(1000), sim.pick(&[3usize, 20, 9])),
        };
        let _ = crate::link_hostile::clean_packet_items(kind, &p, crate::link_hostile::Tag::Prefix, &mut pre);
        if pre.len() >= 2 && sim.chance(40) {
            // only the first frame(s): a partial packet is pending when the sends are made
            let keep = 1 + sim.draw(pre.len() as u32 - 1) as usize;
            pre.truncate(keep);
            sim.probe("sender_holds_partial_incoming_packet");
        }
        crate::link_hostile::load(sim, &back, &pre);
        back.borrow_mut().policy.hard_err_pm = sim.pick(&[0u32, 100, 300]);
        for _ in 0..(1 + sim.draw(4)) {
            let _ = crate::scenario::poll(sim, "tx", &mut tx, &back);
        }
        back.borrow_mut().policy.hard_err_pm = 0;
        sim.probe("sender_has_receive_history");
    }
    if packets.len() > 1 {
        sim.probe("several_packets_through_one_sender");
    }

    for (pi, packet) in packets.iter().enumerate() {
        // each send is judged on what it appends to the stream (an earlier send may have
        // ended in an error in mid-frame)
        let mut exp_bytes: Vec<u8> = Vec::new();
        let mut exp_frames: Vec<bxcan::Frame> = Vec::new();
        let (start_bytes, start_frames) = {
            let w = wire.borrow();
            (w.bytes.len(), w.cframes.len())
        };
        // expected stream: the library's own fragmenter and frame encoders define "its frames"
        let rfs = match frames_of(packet) {
            Ok(r) => r,
            Err(e) => return Outcome::Foreign("C10.encode", e.0),
        };
        for rf in &rfs {
            match encode(kind, rf) {
                Ok(Unit::Body(b)) => {
                    exp_bytes.push(0x00);
                    exp_bytes.push(b.len() as u8);
                    exp_bytes.extend_from_slice(&b);
                }
                Ok(Unit::Can(CanUnit::Frame(f))) => exp_frames.push(f),
                Ok(_) => {}
                Err(e) => return Outcome::Foreign("C09.encode", e.0),
            }
        }
        let before = {
            let w = wire.borrow();
            (w.tx_hard_errors, w.tx_flush_errors, w.tx_displaced, w.tx_interrupted + w.tx_zero, w.tx_wb_total, w.tx_short)
        };
        let res = crate::scenario::send_on(sim, "tx", &mut tx, packet, &back);
        let w = wire.borrow();
        let hard_w = w.tx_hard_errors - before.0;
        let hard_f = w.tx_flush_errors - before.1;
        let displaced = w.tx_displaced - before.2;
        // (`Interrupted` and "nothing accepted" answers: the sender may retry or report them)
        let interrupted = w.tx_interrupted + w.tx_zero - before.3;
        if w.tx_zero > 0 {
            sim.probe("fired_write_accepted_nothing");
        }
        let wbs = w.tx_wb_total - before.4;
        let shorts = w.tx_short - before.5;
        if pi == 0 {
            sim.count_n("tx_calls", w.tx_calls as u64);
            sim.count_n("flush_calls", w.flush_calls as u64);
        }
        // reach probes: which reactions actually fired
        if wbs > 0 {
            sim.probe("fired_would_block");
        }
        if shorts > 0 {
            sim.probe("fired_short_write");
        }
        if interrupted > 0 {
            sim.probe("fired_interrupted");
        }
        if hard_w > 0 {
            sim.probe("fired_hard_write_error");
        }
        if hard_f > 0 {
            sim.probe("fired_flush_error");
        }
        if displaced > 0 {
            sim.probe("fired_displaced_frame");
        }
        if rfs.len() > 1 {
            sim.probe("multi_frame_packet");
        }
        if rfs.len() > 256 {
            sim.probe("frame_id_over_255");
        }
        if rfs.len() == 4096 {
            sim.probe("packet_4096_frames");
        }

        // ---- what the device accepted so far vs. what was to be sent so far
        let wbytes = &w.bytes[start_bytes..];
        let (is_prefix, is_equal, accepted_n, expected_n, first_diff) = if kind.is_bytes() {
            let n = wbytes.len().min(exp_bytes.len());
            let diff = (0..n).find(|&i| wbytes[i] != exp_bytes[i]);
            (
                diff.is_none() && wbytes.len() <= exp_bytes.len(),
                diff.is_none() && wbytes.len() == exp_bytes.len(),
                wbytes.len(),
                exp_bytes.len(),
                diff.unwrap_or(n),
            )
        } else {
            let acc: Vec<&bxcan::Frame> = w.cframes[start_frames..]
                .iter()
                .filter_map(|u| match u {
                    CanUnit::Frame(f) => Some(f),
                    _ => None,
                })
                .collect();
            let n = acc.len().min(exp_frames.len());
            let diff = (0..n).find(|&i| !can_eq(acc[i], &exp_frames[i]));
            (
                diff.is_none() && acc.len() <= exp_frames.len(),
                diff.is_none() && acc.len() == exp_frames.len(),
                acc.len(),
                exp_frames.len(),
                diff.unwrap_or(n),
            )
        };
        let show_around = |i: usize| -> String {
            if kind.is_bytes() {
                let a = i.saturating_sub(4);
                format!(
                    "accepted[{}..]={} expected[{}..]={}",
                    a,
                    hex(&wbytes[a.min(wbytes.len())..(i + 8).min(wbytes.len())]),
                    a,
                    hex(&exp_bytes[a.min(exp_bytes.len())..(i + 8).min(exp_bytes.len())])
                )
            } else {
                let acc = w.cframes.get(start_frames + i).map(|u| match u {
                    CanUnit::Frame(f) => show_can(f),
                    _ => "-".into(),
                });
                format!("accepted[{}]={:?} expected[{}]={:?}", i, acc, i, exp_frames.get(i).map(show_can))
            }
        };
        let nth = if packets.len() > 1 { format!(" (packet #{} of {} through this sender)", pi + 1, packets.len()) } else { String::new() };

        match &res {
            Err(Crash::Blocked) => {
                return fail(
                    prop,
                    "C14.term",
                    format!("try_send_packet never returns although the device accepts after finitely many would-blocks ({}){}", kind.name(), nth),
                    sig("blocked"),
                )
            }
            Err(Crash::Panic(m)) => {
                return fail(
                    prop,
                    "C14.exact",
                    format!("sender panicked for {}{}: {}", show_packet(packet), nth, m),
                    sig(&format!("panic:{}", panic_site(m))),
                )
            }
            _ => {}
        }
        if !is_prefix {
            return fail(
                prop,
                "C14.prefix",
                format!(
                    "the stream the device accepted is not a prefix of the packets' frames{} (accepted {} of {} units, first difference at {}): {}",
                    nth,
                    accepted_n,
                    expected_n,
                    first_diff,
                    show_around(first_diff)
                ),
                sig("not-a-prefix"),
            );
        }
        let ok = matches!(res, Ok(Ok(())));
        if ok && !is_equal {
            return fail(
                prop,
                "C14.exact",
                format!(
                    "try_send_packet returned Ok{} but the device accepted only {} of {} units: {}",
                    nth,
                    accepted_n,
                    expected_n,
                    show_around(accepted_n)
                ),
                sig("ok-but-incomplete"),
            );
        }
        let hard = hard_w + hard_f + displaced;
        if ok && hard > 0 {
            return fail(
                prop,
                "C14.err",
                format!(
                    "the device reported {} write error(s), {} flush error(s), {} displaced frame(s) but try_send_packet returned Ok{}",
                    hard_w, hard_f, displaced, nth
                ),
                sig(if displaced > 0 {
                    "displaced-ignored"
                } else if hard_f > 0 {
                    "flush-error-ignored"
                } else {
                    "write-error-ignored"
                }),
            );
        }
        if ok && kind == LinkKind::Serial && !w.tx_flush_ok_after_last_write {
            return fail(
                prop,
                "C14.exact",
                format!(
                    "try_send_packet returned Ok{} but the bytes written last were never flushed: the call returned before everything was handed to the device, and a flush failure could not have been reported",
                    nth
                ),
                sig("returned-before-flush"),
            );
        }
        if !ok && hard == 0 && interrupted == 0 {
            return fail(
                prop,
                "C14.exact",
                format!(
                    "try_send_packet gave up with {:?}{} although the device only delayed (would-block x{}) or accepted partial writes (x{}); accepted {} of {} units",
                    res, nth, wbs, shorts, accepted_n, expected_n
                ),
                sig("spurious-error"),
            );
        }
        if ok {
            sim.count("sent_ok");
        } else {
            sim.count("sent_err_reported");
            if pi + 1 < packets.len() {
                sim.probe("send_after_failed_send");
            }
        }
    }
    Outcome::Pass
}
