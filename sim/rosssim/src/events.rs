//! All 16 event kinds behind one enum: generation with arbitrary field
//! values, encoding, and decoding "as the same kind".

use crate::gen::{fill_pattern, gen_len, SizeCfg};
use crate::sim::{sut, Sim};
use ross_protocol::convert_packet::ConvertPacket;
use ross_protocol::event::bcm::{BcmAnimateBrightnessEvent, BcmChangeBrightnessEvent, BcmValue};
use ross_protocol::event::bootloader::BootloaderHelloEvent;
use ross_protocol::event::button::{ButtonPressedEvent, ButtonReleasedEvent};
use ross_protocol::event::configurator::ConfiguratorHelloEvent;
use ross_protocol::event::gateway::GatewayDiscoverEvent;
use ross_protocol::event::general::{AckEvent, DataEvent};
use ross_protocol::event::internal::SystemTickEvent;
use ross_protocol::event::message::{MessageEvent, MessageValue};
use ross_protocol::event::programmer::{
    ProgrammerHelloEvent, ProgrammerSetDeviceAddressEvent, ProgrammerStartConfigUpgradeEvent, ProgrammerStartFirmwareUpgradeEvent,
};
use ross_protocol::event::relay::{RelayDoubleExclusiveValue, RelaySetValueEvent, RelayValue};
use ross_protocol::packet::Packet;

pub const N_KINDS: u32 = 16;

#[derive(Debug, PartialEq)]
pub enum AnyEvent {
    BootloaderHello(BootloaderHelloEvent),
    ProgrammerHello(ProgrammerHelloEvent),
    StartFirmwareUpgrade(ProgrammerStartFirmwareUpgradeEvent),
    Ack(AckEvent),
    Data(DataEvent),
    ConfiguratorHello(ConfiguratorHelloEvent),
    BcmChange(BcmChangeBrightnessEvent),
    ButtonPressed(ButtonPressedEvent),
    ButtonReleased(ButtonReleasedEvent),
    SystemTick(SystemTickEvent),
    StartConfigUpgrade(ProgrammerStartConfigUpgradeEvent),
    SetDeviceAddress(ProgrammerSetDeviceAddressEvent),
    Message(MessageEvent),
    BcmAnimate(BcmAnimateBrightnessEvent),
    RelaySetValue(RelaySetValueEvent),
    GatewayDiscover(GatewayDiscoverEvent),
}

pub const KIND_NAMES: [&str; 16] = [
    "BootloaderHello",
    "ProgrammerHello",
    "ProgrammerStartFirmwareUpgrade",
    "Ack",
    "Data",
    "ConfiguratorHello",
    "BcmChangeBrightness",
    "ButtonPressed",
    "ButtonReleased",
    "SystemTick",
    "ProgrammerStartConfigUpgrade",
    "ProgrammerSetDeviceAddress",
    "Message",
    "BcmAnimateBrightness",
    "RelaySetValue",
    "GatewayDiscover",
];

/// Runs `$body` with `$T` bound to the event type of kind index `$k`.
#[macro_export]
macro_rules! with_kind {
    ($k:expr, $T:ident => $body:expr) => {
        match $k {
            0 => {
                type $T = ross_protocol::event::bootloader::BootloaderHelloEvent;
                $body
            }
            1 => {
                type $T = ross_protocol::event::programmer::ProgrammerHelloEvent;
                $body
            }
            2 => {
                type $T = ross_protocol::event::programmer::ProgrammerStartFirmwareUpgradeEvent;
                $body
            }
            3 => {
                type $T = ross_protocol::event::general::AckEvent;
                $body
            }
            4 => {
                type $T = ross_protocol::event::general::DataEvent;
                $body
            }
            5 => {
                type $T = ross_protocol::event::configurator::ConfiguratorHelloEvent;
                $body
            }
            6 => {
                type $T = ross_protocol::event::bcm::BcmChangeBrightnessEvent;
                $body
            }
            7 => {
                type $T = ross_protocol::event::button::ButtonPressedEvent;
                $body
            }
            8 => {
                type $T = ross_protocol::event::button::ButtonReleasedEvent;
                $body
            }
            9 => {
                type $T = ross_protocol::event::internal::SystemTickEvent;
                $body
            }
            10 => {
                type $T = ross_protocol::event::programmer::ProgrammerStartConfigUpgradeEvent;
                $body
            }
            11 => {
                type $T = ross_protocol::event::programmer::ProgrammerSetDeviceAddressEvent;
                $body
            }
            12 => {
                type $T = ross_protocol::event::message::MessageEvent;
                $body
            }
            13 => {
                type $T = ross_protocol::event::bcm::BcmAnimateBrightnessEvent;
                $body
            }
            14 => {
                type $T = ross_protocol::event::relay::RelaySetValueEvent;
                $body
            }
            15 => {
                type $T = ross_protocol::event::gateway::GatewayDiscoverEvent;
                $body
            }
            16 => {
                type $T = $crate::events::AppNak;
                $body
            }
            17 => {
                type $T = $crate::events::AppAny;
                $body
            }
            _ => {
                type $T = $crate::events::AppBig;
                $body
            }
        }
    };
}

// ---- application-defined reply kinds -------------------------------------------------
// The exchange API is generic over any `ConvertPacket` type, not only the library's sixteen
// event kinds. Three harness-defined kinds widen "decodes as the requested event kind":
// one that accepts only *error* packets, a zero-sized one that accepts every packet, and one
// whose value is large (256 bytes).

pub const N_APP_KINDS: u32 = 3;
pub const KIND_APP_NAK: u32 = 16;
pub const KIND_APP_ANY: u32 = 17;
pub const KIND_APP_BIG: u32 = 18;

#[derive(Debug, PartialEq)]
pub struct AppNak {
    pub code: u8,
}

impl ConvertPacket<AppNak> for AppNak {
    fn try_from_packet(p: &Packet) -> Result<AppNak, ross_protocol::convert_packet::ConvertPacketError> {
        use ross_protocol::convert_packet::ConvertPacketError;
        if !p.is_error {
            return Err(ConvertPacketError::WrongType);
        }
        if p.data.len() != 2 {
            return Err(ConvertPacketError::WrongSize);
        }
        if p.data[0] != 0xee {
            return Err(ConvertPacketError::WrongType);
        }
        Ok(AppNak { code: p.data[1] })
    }
    fn to_packet(&self) -> Packet {
        Packet {
            is_error: true,
            device_address: 0xffff,
            data: vec![0xee, self.code],
        }
    }
}

#[derive(Debug, PartialEq)]
pub struct AppAny;

impl ConvertPacket<AppAny> for AppAny {
    fn try_from_packet(_: &Packet) -> Result<AppAny, ross_protocol::convert_packet::ConvertPacketError> {
        Ok(AppAny)
    }
    fn to_packet(&self) -> Packet {
        Packet {
            is_error: false,
            device_address: 0xffff,
            data: Vec::new(),
        }
    }
}

#[derive(PartialEq)]
pub struct AppBig {
    pub tag: u8,
    pub body: [u8; 255],
}

impl std::fmt::Debug for AppBig {
    fn fmt(&self, f: &mut std::fmt::Formatter<'_>) -> std::fmt::Result {
        let sum: u32 = self.body.iter().enumerate().map(|(i, b)| (i as u32 + 1) * *b as u32).sum();
        write!(f, "AppBig {{ tag: {}, body_sum: {} }}", self.tag, sum)
    }
}

impl ConvertPacket<AppBig> for AppBig {
    fn try_from_packet(p: &Packet) -> Result<AppBig, ross_protocol::convert_packet::ConvertPacketError> {
        use ross_protocol::convert_packet::ConvertPacketError;
        if p.is_error || p.data.len() < 2 || p.data[0] != 0xb1 {
            return Err(ConvertPacketError::WrongType);
        }
        let mut body = [0u8; 255];
        for (i, b) in p.data[2..].iter().take(255).enumerate() {
            body[i] = *b;
        }
        Ok(AppBig { tag: p.data[1], body })
    }
    fn to_packet(&self) -> Packet {
        Packet {
            is_error: false,
            device_address: 0xffff,
            data: vec![0xb1, self.tag],
        }
    }
}

pub fn kind_name(k: u32) -> &'static str {
    match k {
        0..=15 => KIND_NAMES[k as usize],
        16 => "AppNak (application-defined kind: accepts only error packets)",
        17 => "AppAny (application-defined kind: zero-sized, accepts every packet)",
        _ => "AppBig (application-defined kind: 256-byte value)",
    }
}

/// A packet that encodes a value of kind `k` (library kinds: the library's own encoder).
pub fn gen_kind_packet(sim: &Sim, k: u32, to: u16, pad: u8) -> Result<Packet, String> {
    match k {
        16 => Ok(Packet {
            is_error: true,
            device_address: to,
            data: vec![0xee, sim.u8_any()],
        }),
        17 => {
            let len = sim.pick(&[3usize, 0, 1, 12]);
            let mut data = fill_pattern(sim.pick(&[6u32, 3, 1]), sim.draw(1 << 16), len);
            if len >= 2 {
                data[0] = 0x7b;
            }
            Ok(Packet {
                is_error: sim.chance(30),
                device_address: to,
                data,
            })
        }
        18 => {
            let len = sim.pick(&[2usize, 9, 40]);
            let mut data = fill_pattern(3, sim.draw(1 << 16), len);
            data[0] = 0xb1;
            Ok(Packet {
                is_error: false,
                device_address: to,
                data,
            })
        }
        4 if sim.draw(400) == 399 => {
            // rarely a data event of several hundred frames, or of the maximum packet size
            // (28672 bytes = 4096 frames) and the sizes just below it
            let len = sim.pick(&[28666usize, 28665, 28660, 28659, 1800, 4096]);
            sim.count("data_event_of_maximum_size_class");
            AnyEvent::Data(DataEvent {
                receiver_address: to,
                transmitter_address: word(sim),
                data_len: len as u16,
                data: fill_pattern(sim.draw(7), sim.draw(1 << 16), len),
            })
            .to_packet(pad)
        }
        _ => gen_event(sim, k, to, SizeCfg { large_pct: 0, huge_pct: 0 }).to_packet(pad),
    }
}

/// Reference answer to "does `p` decode as kind `kind`, and to what" (debug text of the value).
pub fn ref_decode(kind: u32, p: &Packet) -> Result<Option<String>, String> {
    match kind {
        16 => Ok(AppNak::try_from_packet(p).ok().map(|e| format!("{:?}", e))),
        17 => Ok(AppAny::try_from_packet(p).ok().map(|e| format!("{:?}", e))),
        18 => Ok(AppBig::try_from_packet(p).ok().map(|e| format!("{:?}", e))),
        _ => AnyEvent::decode(kind, p).map(|o| o.map(|e| inner_debug(&e))),
    }
}

/// Debug text of the event inside the AnyEvent wrapper (what `{:?}` of the
/// library's own event value prints).
pub fn inner_debug(e: &AnyEvent) -> String {
    let s = format!("{:?}", e);
    // "Variant(Inner { .. })" -> "Inner { .. }"
    match (s.find('('), s.rfind(')')) {
        (Some(a), Some(b)) if b > a => s[a + 1..b].to_string(),
        _ => s,
    }
}

fn gen_bcm(sim: &Sim) -> BcmValue {
    match sim.draw(6) {
        0 => BcmValue::Binary(sim.flag()),
        1 => BcmValue::Single(sim.u8_any()),
        2 => BcmValue::Rgb(sim.u8_any(), sim.u8_any(), sim.u8_any()),
        3 => BcmValue::RgbB(sim.u8_any(), sim.u8_any(), sim.u8_any(), sim.u8_any()),
        4 => BcmValue::Rgbw(sim.u8_any(), sim.u8_any(), sim.u8_any(), sim.u8_any()),
        _ => BcmValue::RgbwB(sim.u8_any(), sim.u8_any(), sim.u8_any(), sim.u8_any(), sim.u8_any()),
    }
}

fn gen_relay(sim: &Sim) -> RelayValue {
    match sim.draw(5) {
        0 => RelayValue::Single(false),
        1 => RelayValue::Single(true),
        2 => RelayValue::DoubleExclusive(RelayDoubleExclusiveValue::FirstChannelOn),
        3 => RelayValue::DoubleExclusive(RelayDoubleExclusiveValue::SecondChannelOn),
        _ => RelayValue::DoubleExclusive(RelayDoubleExclusiveValue::NoChannelOn),
    }
}

fn gen_message(sim: &Sim) -> MessageValue {
    match sim.draw(4) {
        0 => MessageValue::U8(sim.u8_any()),
        1 => MessageValue::U16(sim.u16_any()),
        2 => MessageValue::U32(sim.u32_any()),
        _ => MessageValue::Bool(sim.flag()),
    }
}

fn word(sim: &Sim) -> u16 {
    match sim.draw(6) {
        0 => 0x0000,
        1 => 0xffff,
        2 => 0x00ff,
        3 => 0xff00,
        _ => sim.u16_any(),
    }
}

/// An event of kind `kind` addressed to `receiver` with arbitrary field values.
/// (The two hello announcements are always addressed to broadcast by the library.)
pub fn gen_event(sim: &Sim, kind: u32, receiver: u16, sizes: SizeCfg) -> AnyEvent {
    match kind {
        0 => AnyEvent::BootloaderHello(BootloaderHelloEvent {
            programmer_address: receiver,
            bootloader_address: word(sim),
        }),
        1 => AnyEvent::ProgrammerHello(ProgrammerHelloEvent {
            programmer_address: word(sim),
        }),
        2 => AnyEvent::StartFirmwareUpgrade(ProgrammerStartFirmwareUpgradeEvent {
            receiver_address: receiver,
            programmer_address: word(sim),
            firmware_size: sim.u32_any(),
        }),
        3 => AnyEvent::Ack(AckEvent {
            receiver_address: receiver,
            transmitter_address: word(sim),
        }),
        4 => {
            let len = gen_len(sim, sizes).min(28672 - 6);
            let data = if len == 0 {
                Vec::new()
            } else {
                fill_pattern(sim.draw(7), sim.draw(1 << 16), len)
            };
            AnyEvent::Data(DataEvent {
                receiver_address: receiver,
                transmitter_address: word(sim),
                data_len: len as u16,
                data,
            })
        }
        5 => AnyEvent::ConfiguratorHello(ConfiguratorHelloEvent {}),
        6 => AnyEvent::BcmChange(BcmChangeBrightnessEvent {
            bcm_address: receiver,
            transmitter_address: word(sim),
            index: sim.u8_any(),
            value: gen_bcm(sim),
        }),
        7 => AnyEvent::ButtonPressed(ButtonPressedEvent {
            receiver_address: receiver,
            button_address: word(sim),
            index: sim.u8_any(),
        }),
        8 => AnyEvent::ButtonReleased(ButtonReleasedEvent {
            receiver_address: receiver,
            button_address: word(sim),
            index: sim.u8_any(),
        }),
        9 => AnyEvent::SystemTick(SystemTickEvent {
            receiver_address: receiver,
        }),
        10 => AnyEvent::StartConfigUpgrade(ProgrammerStartConfigUpgradeEvent {
            receiver_address: receiver,
            programmer_address: word(sim),
            config_size: sim.u32_any(),
        }),
        11 => AnyEvent::SetDeviceAddress(ProgrammerSetDeviceAddressEvent {
            receiver_address: receiver,
            programmer_address: word(sim),
            new_address: word(sim),
        }),
        12 => AnyEvent::Message(MessageEvent {
            receiver_address: receiver,
            transmitter_address: word(sim),
            code: word(sim),
            value: gen_message(sim),
        }),
        13 => AnyEvent::BcmAnimate(BcmAnimateBrightnessEvent {
            bcm_address: receiver,
            transmitter_address: word(sim),
            index: sim.u8_any(),
            duration: sim.u32_any(),
            target_value: gen_bcm(sim),
        }),
        14 => AnyEvent::RelaySetValue(RelaySetValueEvent {
            relay_address: receiver,
            transmitter_address: word(sim),
            index: sim.u8_any(),
            value: gen_relay(sim),
        }),
        _ => AnyEvent::GatewayDiscover(GatewayDiscoverEvent {
            device_address: receiver,
            gateway_address: word(sim),
        }),
    }
}

impl AnyEvent {
    pub fn kind(&self) -> u32 {
        match self {
            AnyEvent::BootloaderHello(_) => 0,
            AnyEvent::ProgrammerHello(_) => 1,
            AnyEvent::StartFirmwareUpgrade(_) => 2,
            AnyEvent::Ack(_) => 3,
            AnyEvent::Data(_) => 4,
            AnyEvent::ConfiguratorHello(_) => 5,
            AnyEvent::BcmChange(_) => 6,
            AnyEvent::ButtonPressed(_) => 7,
            AnyEvent::ButtonReleased(_) => 8,
            AnyEvent::SystemTick(_) => 9,
            AnyEvent::StartConfigUpgrade(_) => 10,
            AnyEvent::SetDeviceAddress(_) => 11,
            AnyEvent::Message(_) => 12,
            AnyEvent::BcmAnimate(_) => 13,
            AnyEvent::RelaySetValue(_) => 14,
            AnyEvent::GatewayDiscover(_) => 15,
        }
    }

    /// Encodes with the library's own encoder. For message events the padding
    /// bytes of the value's in-memory image (uninitialised memory that the
    /// encoder copies out) are overwritten with `pad`, so that runs are
    /// bit-reproducible; the decoder ignores them.
    pub fn to_packet(&self, pad: u8) -> Result<Packet, String> {
        let r = sut(|| match self {
            AnyEvent::BootloaderHello(e) => e.to_packet(),
            AnyEvent::ProgrammerHello(e) => e.to_packet(),
            AnyEvent::StartFirmwareUpgrade(e) => e.to_packet(),
            AnyEvent::Ack(e) => e.to_packet(),
            AnyEvent::Data(e) => e.to_packet(),
            AnyEvent::ConfiguratorHello(e) => e.to_packet(),
            AnyEvent::BcmChange(e) => e.to_packet(),
            AnyEvent::ButtonPressed(e) => e.to_packet(),
            AnyEvent::ButtonReleased(e) => e.to_packet(),
            AnyEvent::SystemTick(e) => e.to_packet(),
            AnyEvent::StartConfigUpgrade(e) => e.to_packet(),
            AnyEvent::SetDeviceAddress(e) => e.to_packet(),
            AnyEvent::Message(e) => e.to_packet(),
            AnyEvent::BcmAnimate(e) => e.to_packet(),
            AnyEvent::RelaySetValue(e) => e.to_packet(),
            AnyEvent::GatewayDiscover(e) => e.to_packet(),
        });
        match r {
            Ok(mut p) => {
                if let AnyEvent::Message(e) = self {
                    if p.data.len() == 14 {
                        let used = match e.value {
                            MessageValue::U8(_) | MessageValue::Bool(_) => 1,
                            MessageValue::U16(_) => 2,
                            MessageValue::U32(_) => 4,
                        };
                        for b in p.data[10 + used..14].iter_mut() {
                            *b = pad;
                        }
                    }
                }
                Ok(p)
            }
            Err(c) => Err(format!("{} encoder crashed: {:?}", KIND_NAMES[self.kind() as usize], c)),
        }
    }

    /// Decodes `p` with the decoder of `kind`. Err(text) if the decoder crashed.
    pub fn decode(kind: u32, p: &Packet) -> Result<Option<AnyEvent>, String> {
        if !message_decode_is_defined(kind, p) {
            return Ok(None);
        }
        let r = sut(|| match kind {
            0 => BootloaderHelloEvent::try_from_packet(p).ok().map(AnyEvent::BootloaderHello),
            1 => ProgrammerHelloEvent::try_from_packet(p).ok().map(AnyEvent::ProgrammerHello),
            2 => ProgrammerStartFirmwareUpgradeEvent::try_from_packet(p).ok().map(AnyEvent::StartFirmwareUpgrade),
            3 => AckEvent::try_from_packet(p).ok().map(AnyEvent::Ack),
            4 => DataEvent::try_from_packet(p).ok().map(AnyEvent::Data),
            5 => ConfiguratorHelloEvent::try_from_packet(p).ok().map(AnyEvent::ConfiguratorHello),
            6 => BcmChangeBrightnessEvent::try_from_packet(p).ok().map(AnyEvent::BcmChange),
            7 => ButtonPressedEvent::try_from_packet(p).ok().map(AnyEvent::ButtonPressed),
            8 => ButtonReleasedEvent::try_from_packet(p).ok().map(AnyEvent::ButtonReleased),
            9 => SystemTickEvent::try_from_packet(p).ok().map(AnyEvent::SystemTick),
            10 => ProgrammerStartConfigUpgradeEvent::try_from_packet(p).ok().map(AnyEvent::StartConfigUpgrade),
            11 => ProgrammerSetDeviceAddressEvent::try_from_packet(p).ok().map(AnyEvent::SetDeviceAddress),
            12 => MessageEvent::try_from_packet(p).ok().map(AnyEvent::Message),
            13 => BcmAnimateBrightnessEvent::try_from_packet(p).ok().map(AnyEvent::BcmAnimate),
            14 => RelaySetValueEvent::try_from_packet(p).ok().map(AnyEvent::RelaySetValue),
            _ => GatewayDiscoverEvent::try_from_packet(p).ok().map(AnyEvent::GatewayDiscover),
        });
        r.map_err(|c| format!("{} decoder crashed on {}: {:?}", KIND_NAMES[kind as usize], crate::sim::show_packet(p), c))
    }
}

/// The message decoder materialises the value by reinterpreting bytes; for a
/// tag outside 0..=3 (or a bool byte above 1) that is undefined behaviour which
/// no harness can observe safely (C05's subject). Such packets are never
/// shown to a message decoder by this harness.
pub fn message_decode_is_defined(kind: u32, p: &Packet) -> bool {
    if kind != 12 || p.data.len() != 14 || p.is_error {
        return true;
    }
    if p.data[0] != 0x00 || p.data[1] != 0x0c {
        return true;
    }
    let tag = u32::from_ne_bytes([p.data[6], p.data[7], p.data[8], p.data[9]]);
    tag <= 3 && (tag != 3 || p.data[10] <= 1)
}

/// Makes a packet safe to show to any decoder (see `message_decode_is_defined`):
/// an undefined message image gets its error flag set.
pub fn sanitize(p: &mut Packet) {
    if !message_decode_is_defined(12, p) {
        p.is_error = true;
    }
}
