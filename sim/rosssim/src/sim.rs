//! Shared simulation handle: tape, event log, counters, step clock; and the
//! wrapper through which every call into the system under test is made.

use crate::alloc;
use crate::tape::Tape;
use ross_protocol::packet::Packet;
use std::cell::RefCell;
use std::collections::{BTreeMap, BTreeSet};
use std::panic::{catch_unwind, AssertUnwindSafe};
use std::rc::Rc;

/// Number of consecutive "nothing in flight" answers one SUT call may collect
/// before the device declares the call blocked forever.
pub const STARVE_BUDGET: u32 = 10_000;

/// A worker prints one heartbeat line per this many simulation events (+1), so that the
/// driver's watchdog tells a long run (hundreds of thousands of frames, on a loaded machine)
/// from a hang: a hung run - a loop in the system under test that never touches a seam, or a
/// stuck harness - produces no events and therefore no heartbeats.
const HEARTBEAT_MASK: u64 = (1 << 21) - 1;

/// Heartbeats are printed by `rosssim worker` only (other commands own their stdout).
pub static HEARTBEAT_ON: std::sync::atomic::AtomicBool = std::sync::atomic::AtomicBool::new(false);

fn heartbeat() {
    use std::io::Write;
    if !HEARTBEAT_ON.load(std::sync::atomic::Ordering::Relaxed) {
        return;
    }
    let stdout = std::io::stdout();
    let mut l = stdout.lock();
    let _ = l.write_all(b"H\n");
    let _ = l.flush();
}

/// Number of simulation events one call into the system under test may produce. The largest
/// legitimate calls (sending a maximum-size packet byte by byte against a transmitter that
/// would-blocks hundreds of thousands of times; an exchange over 12 000 queued entries) stay
/// below two million. A call beyond the budget is running away - e.g. a dispatch loop that
/// never ends but keeps invoking handlers, which neither the starvation detection of the
/// devices nor the driver's watchdog (heartbeats keep coming) would stop - and is unwound with
/// the same sentinel as a blocked call.
pub const CALL_EVENT_BUDGET: u64 = 8_000_000;
/// Once a call of a run has run away, the later calls of the same run get this much only
/// (the run is lost anyway; it should end quickly).
pub const CALL_EVENT_BUDGET_AFTER_RUNAWAY: u64 = 100_000;

thread_local! {
    /// step count beyond which the SUT call in progress is unwound (0 = no call in progress)
    static CALL_LIMIT: std::cell::Cell<u64> = std::cell::Cell::new(0);
    /// step count of the most recent event of any Sim of this thread (for `sut`, which has no Sim handle)
    static LAST_STEPS: std::cell::Cell<u64> = std::cell::Cell::new(0);
    /// a call of the current run has exceeded its budget
    static RAN_AWAY: std::cell::Cell<bool> = std::cell::Cell::new(false);
}

/// Called at the start of every run.
pub fn reset_call_budget() {
    crate::simclock::reset();
    let _ = crate::simclock::take_counts();
    CALL_LIMIT.with(|c| c.set(0));
    LAST_STEPS.with(|l| l.set(0));
    RAN_AWAY.with(|r| r.set(false));
}

fn check_call_budget(steps: u64) {
    LAST_STEPS.with(|l| l.set(steps));
    let limit = CALL_LIMIT.with(|c| c.get());
    if limit != 0 && steps > limit {
        // disarm first: unwinding runs destructors that may log
        CALL_LIMIT.with(|c| c.set(0));
        RAN_AWAY.with(|r| r.set(true));
        if std::env::var("ROSSSIM_DEBUG_BUDGET").is_ok() {
            eprintln!("budget tripped at step {} (limit {})", steps, limit);
        }
        std::panic::panic_any(BlockedSentinel);
    }
}

/// Panic payload used by a starved device to unwind out of a blocked SUT call.
pub struct BlockedSentinel;

#[derive(Debug, Clone)]
pub enum Crash {
    Panic(String),
    Blocked,
}

#[derive(Debug, Clone)]
pub struct Violation {
    pub clause: &'static str,
    pub msg: String,
    /// Stable, input-derived identification of what failed (for known findings).
    pub signature: String,
}

pub struct SimInner {
    pub tape: Tape,
    pub hash: u64,
    pub hash_unordered: u64,
    pub trace_on: bool,
    pub trace: Vec<String>,
    pub steps: u64,
    pub counters: BTreeMap<&'static str, u64>,
    pub nontrivial: bool,
    pub states: BTreeSet<u32>,
    pub transitions: BTreeSet<(u32, u32)>,
    pub last_state: Option<u32>,
    pub sample: Option<String>,
    pub last_text: Option<String>,
    pub repeat: u64,
}

#[derive(Clone)]
pub struct Sim(pub Rc<RefCell<SimInner>>);

// The simulated serial port must be `Send` (supertrait of SerialPort). Workers
// are strictly single-threaded, nothing is ever moved across threads.
unsafe impl Send for Sim {}

impl Sim {
    pub fn new(tape: Tape, trace_on: bool) -> Self {
        Sim(Rc::new(RefCell::new(SimInner {
            tape,
            hash: 0xcbf29ce484222325,
            hash_unordered: 0,
            trace_on,
            trace: Vec::new(),
            steps: 0,
            counters: BTreeMap::new(),
            nontrivial: false,
            states: BTreeSet::new(),
            transitions: BTreeSet::new(),
            last_state: None,
            sample: None,
            last_text: None,
            repeat: 0,
        })))
    }

    /// One decision. 0 is always the simplest choice.
    pub fn draw(&self, bound: u32) -> u32 {
        let _g = alloc::SimDomain::enter();
        self.0.borrow_mut().tape.draw(bound)
    }

    /// true with probability pct/100; the value 0 of the underlying draw means "no".
    pub fn chance(&self, pct: u32) -> bool {
        if pct == 0 {
            return false;
        }
        if pct >= 100 {
            return true;
        }
        self.draw(100) >= 100 - pct
    }

    /// Picks from a list whose first element is the simplest.
    pub fn pick<T: Copy>(&self, items: &[T]) -> T {
        items[self.draw(items.len() as u32) as usize]
    }

    pub fn flag(&self) -> bool {
        self.draw(2) == 1
    }

    /// "Time passes" between two top-level calls: mostly none, sometimes a gap of a
    /// millisecond, a second, a few seconds, an hour, a month (the simulated clock jumps).
    pub fn idle_gap(&self) {
        if self.draw(25) == 24 {
            let ns = self.pick(&[1_000_000u64, 1_000_000_000, 3_000_000_000, 61_000_000_000, 3_600_000_000_000, 2_600_000_000_000_000]);
            crate::simclock::advance(ns);
            self.event(23, ns, 0, || format!("(simulated time passes: {} ms)", ns / 1_000_000));
            self.count("idle_gap_of_simulated_time");
        }
    }

    pub fn u16_any(&self) -> u16 {
        self.draw(65536) as u16
    }

    pub fn u8_any(&self) -> u8 {
        self.draw(256) as u8
    }

    pub fn u32_any(&self) -> u32 {
        // two draws keep every draw bound within u32
        let hi = self.draw(65536);
        let lo = self.draw(65536);
        (hi << 16) | lo
    }

    /// Records one event in the run's event log (hash always, text when tracing).
    pub fn event<F: FnOnce() -> String>(&self, kind: u8, a: u64, b: u64, text: F) {
        let _g = alloc::SimDomain::enter();
        let mut s = self.0.borrow_mut();
        let mut h = s.hash;
        for v in [kind as u64, a, b] {
            h ^= v;
            h = h.wrapping_mul(0x100000001b3);
            h ^= h >> 29;
        }
        s.hash = h;
        s.steps += 1;
        crate::simclock::advance(crate::simclock::NS_PER_EVENT);
        if s.steps & HEARTBEAT_MASK == 0 {
            heartbeat();
        }
        if s.steps & 0x3ff == 0 {
            let steps = s.steps;
            drop(s);
            check_call_budget(steps);
            s = self.0.borrow_mut();
        }
        if s.trace_on {
            let step = s.steps;
            let t = text();
            // run-length collapse of identical consecutive events (e.g. a spinning block!)
            if s.last_text.as_deref() == Some(t.as_str()) {
                s.repeat += 1;
                let n = s.repeat;
                if let Some(last) = s.trace.last_mut() {
                    *last = format!("step {} {}   (x{} up to here, first at step {})", step, t, n, step + 1 - n);
                }
            } else if s.trace.len() < trace_cap() {
                s.trace.push(format!("step {} {}", step, t));
                s.last_text = Some(t);
                s.repeat = 1;
            }
        }
    }

    /// Like `event`, but folded into the log hash commutatively: for events whose mutual
    /// order the properties leave open (handler invocations within one delivery) and which
    /// an implementation may order by something the simulator does not control.
    pub fn event_unordered<F: FnOnce() -> String>(&self, kind: u8, a: u64, b: u64, text: F) {
        let _g = alloc::SimDomain::enter();
        let mut s = self.0.borrow_mut();
        let mut h = 0x9e3779b97f4a7c15u64;
        for v in [kind as u64, a, b] {
            h ^= v;
            h = h.wrapping_mul(0x100000001b3);
            h ^= h >> 29;
        }
        s.hash_unordered = s.hash_unordered.wrapping_add(h);
        s.steps += 1;
        crate::simclock::advance(crate::simclock::NS_PER_EVENT);
        if s.steps & HEARTBEAT_MASK == 0 {
            heartbeat();
        }
        if s.steps & 0x3ff == 0 {
            let steps = s.steps;
            drop(s);
            check_call_budget(steps);
            s = self.0.borrow_mut();
        }
        if s.trace_on && s.trace.len() < trace_cap() {
            let step = s.steps;
            let t = text();
            s.trace.push(format!("step {} {}", step, t));
            s.last_text = None;
        }
    }

    pub fn count(&self, name: &'static str) {
        self.count_n(name, 1);
    }

    pub fn count_n(&self, name: &'static str, n: u64) {
        let _g = alloc::SimDomain::enter();
        *self.0.borrow_mut().counters.entry(name).or_insert(0) += n;
    }

    pub fn counter(&self, name: &'static str) -> u64 {
        self.0.borrow().counters.get(name).copied().unwrap_or(0)
    }

    /// A feature that makes the run non-trivial fired.
    pub fn probe(&self, name: &'static str) {
        let _g = alloc::SimDomain::enter();
        let mut s = self.0.borrow_mut();
        *s.counters.entry(name).or_insert(0) += 1;
        s.nontrivial = true;
    }

    pub fn abstract_state(&self, st: u32) {
        let _g = alloc::SimDomain::enter();
        let mut s = self.0.borrow_mut();
        s.states.insert(st);
        if let Some(prev) = s.last_state {
            s.transitions.insert((prev, st));
        }
        s.last_state = Some(st);
    }

    pub fn steps(&self) -> u64 {
        self.0.borrow().steps
    }

    pub fn hash(&self) -> u64 {
        let s = self.0.borrow();
        s.hash ^ s.hash_unordered.rotate_left(17)
    }

    pub fn tracing(&self) -> bool {
        self.0.borrow().trace_on
    }

    pub fn set_sample(&self, f: impl FnOnce() -> String) {
        let mut s = self.0.borrow_mut();
        if s.sample.is_none() {
            s.sample = Some(f());
        }
    }

    pub fn note(&self, f: impl FnOnce() -> String) {
        let mut s = self.0.borrow_mut();
        if s.trace_on && s.trace.len() < trace_cap() {
            let t = f();
            s.trace.push(t);
        }
    }
}

thread_local! {
    pub static LAST_PANIC: RefCell<Option<String>> = RefCell::new(None);
}

pub fn install_panic_hook() {
    std::panic::set_hook(Box::new(|info| {
        let _g = alloc::SimDomain::enter();
        if info.payload().downcast_ref::<BlockedSentinel>().is_some() {
            return;
        }
        let msg = if let Some(s) = info.payload().downcast_ref::<&str>() {
            s.to_string()
        } else if let Some(s) = info.payload().downcast_ref::<String>() {
            s.clone()
        } else {
            "<non-string panic payload>".to_string()
        };
        let loc = info
            .location()
            .map(|l| format!("{}:{}", l.file(), l.line()))
            .unwrap_or_default();
        LAST_PANIC.with(|p| *p.borrow_mut() = Some(format!("{} at {}", msg, loc)));
    }));
}

/// Calls into the system under test: SUT allocation domain, panics and the
/// "blocked forever" sentinel are turned into values.
pub fn sut<T>(f: impl FnOnce() -> T) -> Result<T, Crash> {
    let prev = alloc::set_domain(alloc::SUT);
    let outermost = CALL_LIMIT.with(|c| c.get()) == 0;
    if outermost {
        let budget = if RAN_AWAY.with(|r| r.get()) { CALL_EVENT_BUDGET_AFTER_RUNAWAY } else { CALL_EVENT_BUDGET };
        CALL_LIMIT.with(|c| c.set(LAST_STEPS.with(|l| l.get()) + budget));
    }
    let r = catch_unwind(AssertUnwindSafe(f));
    if outermost {
        CALL_LIMIT.with(|c| c.set(0));
    }
    alloc::set_domain(prev);
    match r {
        Ok(v) => Ok(v),
        Err(payload) => {
            if payload.downcast_ref::<BlockedSentinel>().is_some() {
                Err(Crash::Blocked)
            } else {
                let msg = LAST_PANIC
                    .with(|p| p.borrow_mut().take())
                    .unwrap_or_else(|| "panic".to_string());
                // the payload is dropped in the SIM domain
                drop(payload);
                Err(Crash::Panic(msg))
            }
        }
    }
}

pub fn hash_bytes(mut h: u64, data: &[u8]) -> u64 {
    for b in data {
        h ^= *b as u64;
        h = h.wrapping_mul(0x100000001b3);
    }
    h
}

pub fn hash_packet(p: &Packet) -> u64 {
    let mut h = 0xcbf29ce484222325u64;
    h = hash_bytes(h, &[p.is_error as u8]);
    h = hash_bytes(h, &p.device_address.to_be_bytes());
    h = hash_bytes(h, &(p.data.len() as u32).to_be_bytes());
    hash_bytes(h, &p.data)
}

pub fn hex(data: &[u8]) -> String {
    let mut s = String::with_capacity(data.len() * 2);
    for b in data {
        s.push_str(&format!("{:02x}", b));
    }
    s
}

pub fn show_packet(p: &Packet) -> String {
    if p.data.len() <= 24 {
        format!(
            "Packet{{err:{} addr:{:04x} len:{} data:{}}}",
            p.is_error as u8,
            p.device_address,
            p.data.len(),
            hex(&p.data)
        )
    } else {
        format!(
            "Packet{{err:{} addr:{:04x} len:{} data:{}..{} h:{:016x}}}",
            p.is_error as u8,
            p.device_address,
            p.data.len(),
            hex(&p.data[..10]),
            hex(&p.data[p.data.len() - 6..]),
            hash_packet(p)
        )
    }
}

/// Maximum number of trace lines kept for a replay (ROSSSIM_TRACE_CAP overrides the default).
pub fn trace_cap() -> usize {
    thread_local! {
        static CAP: usize = std::env::var("ROSSSIM_TRACE_CAP").ok().and_then(|v| v.parse().ok()).unwrap_or(4000);
    }
    CAP.with(|c| *c)
}
