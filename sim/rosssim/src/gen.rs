//! Workload generators. Every generator is written so that the draw value 0
//! is the simplest choice (shortest payload, first address, no fault), which
//! makes recorded tapes directly shrinkable.

use crate::sim::Sim;
use crate::tape::Xoshiro;
use ross_protocol::packet::Packet;

pub const SMALL_SIZES: [usize; 13] = [0, 1, 7, 8, 9, 13, 14, 15, 16, 21, 22, 56, 57];
/// frame ids crossing 255 -> 256 (the id's high nibble moves into the header)
/// ... and payload lengths around 4096 / 8192 (16-bit length fields, 12-bit masks)
pub const LARGE_SIZES: [usize; 8] = [1785, 1792, 1793, 1800, 4095, 4096, 4097, 8192];
/// 4096 frames, the limit of the 12-bit frame id
pub const HUGE_SIZES: [usize; 2] = [28665, 28672];

#[derive(Clone, Copy, Debug)]
pub struct SizeCfg {
    /// percent of packets drawn from LARGE_SIZES
    pub large_pct: u32,
    /// percent of packets drawn from HUGE_SIZES / uniform 0..=28672
    pub huge_pct: u32,
}

pub fn gen_len(sim: &Sim, cfg: SizeCfg) -> usize {
    let c = sim.draw(100);
    let huge_from = 100 - cfg.huge_pct.min(50);
    let large_from = huge_from - cfg.large_pct.min(50);
    if c >= huge_from {
        if sim.flag() {
            sim.draw(28673) as usize
        } else {
            sim.pick(&HUGE_SIZES)
        }
    } else if c >= large_from {
        sim.pick(&LARGE_SIZES)
    } else if c < 55 {
        sim.pick(&SMALL_SIZES)
    } else if c < 58 {
        // medium sizes: every frame count up to 100 (batch sizes, per-poll budgets, ...)
        71 + sim.draw(630) as usize
    } else {
        sim.draw(71) as usize
    }
}

/// Expands (pattern, pattern seed) into `len` bytes, biased towards 0x00, 0xff,
/// and long runs so that COBS stuffing and delimiter handling are exercised.
pub fn gen_payload(sim: &Sim, len: usize) -> Vec<u8> {
    if len == 0 {
        return Vec::new();
    }
    let pattern = sim.draw(7);
    let seed = sim.draw(1 << 16);
    fill_pattern(pattern, seed, len)
}

pub fn fill_pattern(pattern: u32, seed: u32, len: usize) -> Vec<u8> {
    let mut rng = Xoshiro::new(0x5eed_0000 + seed as u64);
    let mut v = Vec::with_capacity(len);
    match pattern {
        0 => {
            for i in 0..len {
                v.push((i as u32).wrapping_add(seed).wrapping_add(1) as u8);
            }
        }
        1 => v.resize(len, 0x00),
        2 => v.resize(len, 0xff),
        3 => {
            for _ in 0..len {
                v.push(rng.below(256) as u8);
            }
        }
        4 => {
            for _ in 0..len {
                let b = match rng.below(8) {
                    0 | 1 | 2 => 0x00,
                    3 | 4 => 0xff,
                    5 => 0x01,
                    _ => rng.below(256) as u8,
                };
                v.push(b);
            }
        }
        5 => {
            // alternating runs of 0x00 / 0xff / one random byte
            while v.len() < len {
                let run = 1 + rng.below(300) as usize;
                let b = match rng.below(3) {
                    0 => 0x00,
                    1 => 0xff,
                    _ => rng.below(256) as u8,
                };
                for _ in 0..run.min(len - v.len()) {
                    v.push(b);
                }
            }
        }
        _ => {
            // position-dependent, never repeating within 64 KiB: reveals misplaced bytes
            for i in 0..len {
                let x = (i as u32).wrapping_mul(2654435761).wrapping_add(seed);
                v.push((x >> 13) as u8);
            }
        }
    }
    v
}

pub fn gen_addr(sim: &Sim, special: &[u16]) -> u16 {
    // first the caller's special addresses (own, peer ...), then fixed corner values, then uniform
    let fixed = [0x0000u16, 0x0001, 0x00ff, 0x0100, 0xff00, 0xfffe, 0xffff];
    let n = special.len() as u32 + fixed.len() as u32 + 1;
    let i = sim.draw(n) as usize;
    if i < special.len() {
        special[i]
    } else if i < special.len() + fixed.len() {
        fixed[i - special.len()]
    } else {
        sim.u16_any()
    }
}

pub fn gen_packet(sim: &Sim, sizes: SizeCfg, special_addrs: &[u16]) -> Packet {
    let len = gen_len(sim, sizes);
    let mut data = gen_payload(sim, len);
    let is_error = sim.chance(25);
    let device_address = gen_addr(sim, special_addrs);
    // A link must not care what a packet means: some payloads are the library's own event
    // encodings (all sixteen kinds), some merely begin with an event code.
    match sim.draw(24) {
        23 => {
            let kind = sim.draw(crate::events::N_KINDS);
            if let Ok(p) = crate::events::gen_event(sim, kind, device_address, SizeCfg { large_pct: 0, huge_pct: 0 }).to_packet(sim.u8_any()) {
                data = p.data.to_vec();
                sim.count("payload_is_an_event_encoding");
            }
        }
        22 => {
            if data.len() >= 2 {
                data[0] = 0x00;
                data[1] = sim.draw(16) as u8;
                sim.count("payload_begins_with_an_event_code");
            }
        }
        _ => {}
    }
    Packet {
        is_error,
        device_address,
        data,
    }
}

pub fn packet_eq(a: &Packet, b: &Packet) -> bool {
    a.is_error == b.is_error && a.device_address == b.device_address && a.data == b.data
}
