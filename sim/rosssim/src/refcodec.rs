//! Small reference codecs written from the documented wire format, used only
//! by the hostile-stream generator and by model-free bounds (never as the
//! definition of what the library must accept).

/// COBS encoding of arbitrary bytes (no trailing delimiter).
pub fn cobs_encode(src: &[u8]) -> Vec<u8> {
    let mut out = Vec::with_capacity(src.len() + 2);
    let mut code_idx = 0usize;
    out.push(0);
    let mut code = 1u8;
    for &b in src {
        if b == 0 {
            out[code_idx] = code;
            code_idx = out.len();
            out.push(0);
            code = 1;
        } else {
            out.push(b);
            code += 1;
            if code == 0xff {
                out[code_idx] = code;
                code_idx = out.len();
                out.push(0);
                code = 1;
            }
        }
    }
    out[code_idx] = code;
    out
}

/// COBS decoding; None for any malformed input.
pub fn cobs_decode(src: &[u8]) -> Option<Vec<u8>> {
    let mut out = Vec::with_capacity(src.len());
    let mut i = 0usize;
    if src.is_empty() {
        return None;
    }
    while i < src.len() {
        let code = src[i];
        if code == 0 {
            return None;
        }
        i += 1;
        for _ in 1..code {
            if i >= src.len() || src[i] == 0 {
                return None;
            }
            out.push(src[i]);
            i += 1;
        }
        if code < 0xff && i < src.len() {
            out.push(0);
        }
    }
    Some(out)
}

/// Upper bound on the frame count a USART link-frame body can announce if the
/// receiver takes it as a start frame (0 if it cannot be a start frame).
pub fn announce_usart_body(body: &[u8]) -> u32 {
    // (leading zero bytes of a body are skipped, as common COBS decoders do)
    let lead = body.iter().take_while(|b| **b == 0).count();
    match cobs_decode(&body[lead..]) {
        Some(raw) if raw.len() >= 5 => {
            let start = (raw[0] >> 6) & 1 != 0;
            if start {
                ((((raw[0] & 0x0f) as u32) << 8) | raw[1] as u32) + 1
            } else {
                0
            }
        }
        // undecodable by the reference: be generous (the bound must stay model-free)
        Some(_) => 0,
        None => 0,
    }
}

/// Same for a CAN frame.
pub fn announce_can(f: &bxcan::Frame) -> u32 {
    let id = match f.id() {
        bxcan::Id::Extended(e) => e.as_raw(),
        _ => return 0,
    };
    let data = match f.data() {
        Some(d) => d,
        None => return 0,
    };
    let start = (id >> 27) & 1 != 0;
    let multi = (id >> 26) & 1 != 0;
    if !multi {
        return 1;
    }
    if !start || data.is_empty() {
        return 0;
    }
    ((((id >> 16) & 0xf) << 8) | data[0] as u32) + 1
}

/// Raw (pre-COBS) USART frame image from explicit header fields; `declared`
/// is written into the data-length byte whatever `data.len()` is.
pub fn raw_usart_image(not_error: bool, start: bool, multi: bool, id: u16, addr: u16, declared: u8, data: &[u8]) -> Vec<u8> {
    let mut raw = Vec::with_capacity(5 + data.len());
    raw.push(((not_error as u8) << 7) | ((start as u8) << 6) | ((multi as u8) << 5) | ((id >> 8) as u8 & 0x0f));
    raw.push(id as u8);
    raw.push((addr >> 8) as u8);
    raw.push(addr as u8);
    raw.push(declared);
    raw.extend_from_slice(data);
    raw
}
