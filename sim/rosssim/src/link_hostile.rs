//! S-LINK (hostile): a scripted stream of whole link frames - valid,
//! corrupted, wrongly sized, duplicated, reordered, interrupted, foreign -
//! through the real receivers, followed by two probe packets. Decides C06;
//! the same stream builder, made long, feeds the memory check C19.

use crate::dev::{show_can, AnyLink, CanUnit, Dev, LinkKind, Wire, WireRef};
use crate::gen::{fill_pattern, packet_eq};
use crate::link_clean::schedule_policy;
use crate::refcodec::{announce_can, announce_usart_body, cobs_encode, raw_usart_image};
use crate::scenario::{bucket, fail, poll, Outcome, Tier};
use crate::sim::{hex, show_packet, sut, Crash, Sim};
use ross_protocol::frame::{Frame, FrameId};
use ross_protocol::interface::InterfaceError;
use ross_protocol::packet::Packet;

#[derive(Clone, Copy, PartialEq, Eq, Debug)]
pub enum Tag {
    Prefix,
    Probe(u8),
}

#[derive(Clone, Debug)]
pub enum Unit {
    /// non-zero line noise between frames (byte links)
    Noise(Vec<u8>),
    /// body of one link frame; the wire carries `00 len body`
    Body(Vec<u8>),
    Can(CanUnit),
}

#[derive(Clone, Debug)]
pub struct Item {
    pub unit: Unit,
    pub tag: Tag,
    pub what: &'static str,
}

/// Harness-side mirror of a ROSS frame (the library's `Frame` is not `Clone`).
#[derive(Clone, Copy, Debug)]
pub struct RF {
    pub not_error: bool,
    pub start: bool,
    pub multi: bool,
    pub id: u16,
    pub addr: u16,
    pub data_len: u8,
    pub data: [u8; 8],
}

impl RF {
    pub fn from_ross(f: &Frame) -> RF {
        RF {
            not_error: f.not_error_flag,
            start: f.start_frame_flag,
            multi: f.multi_frame_flag,
            id: match f.frame_id {
                FrameId::LastFrameId(i) => i,
                FrameId::CurrentFrameId(i) => i,
            },
            addr: f.device_address,
            data_len: f.data_len,
            data: f.data,
        }
    }
    pub fn to_ross(&self) -> Frame {
        Frame {
            not_error_flag: self.not_error,
            start_frame_flag: self.start,
            multi_frame_flag: self.multi,
            frame_id: if self.start {
                FrameId::LastFrameId(self.id)
            } else {
                FrameId::CurrentFrameId(self.id)
            },
            device_address: self.addr,
            data_len: self.data_len,
            data: self.data,
        }
    }
}

pub struct EncodeFailed(pub String);

/// Fragments with the library's own fragmenter (what "its frames" are is
/// C10's subject, not C06's).
pub fn frames_of(p: &Packet) -> Result<Vec<RF>, EncodeFailed> {
    match sut(|| p.to_frames()) {
        Ok(fs) => Ok(fs.iter().map(RF::from_ross).collect()),
        Err(c) => Err(EncodeFailed(format!("Packet::to_frames crashed: {:?}", c))),
    }
}

/// Encodes with the library's own frame encoders.
pub fn encode(kind: LinkKind, rf: &RF) -> Result<Unit, EncodeFailed> {
    let f = rf.to_ross();
    if kind.is_bytes() {
        match sut(|| f.to_usart_frame()) {
            Ok(b) => Ok(Unit::Body(b)),
            Err(c) => Err(EncodeFailed(format!("to_usart_frame crashed: {:?}", c))),
        }
    } else {
        match sut(|| f.to_bxcan_frame()) {
            Ok(b) => Ok(Unit::Can(CanUnit::Frame(b))),
            Err(c) => Err(EncodeFailed(format!("to_bxcan_frame crashed: {:?}", c))),
        }
    }
}

pub struct StreamCfg {
    pub kind: LinkKind,
    /// the few device addresses used by this run (collisions with stale state are the point)
    pub addrs: [u16; 3],
    pub large_pct: u32,
    pub huge_pct: u32,
    /// percent of episodes that get any fault at all
    pub fault_pct: u32,
    /// percent of episodes that are a start frame announcing a huge packet, a few
    /// continuation frames, and then nothing more (abandoned)
    pub giant_pct: u32,
    /// percent of episodes that are an over-long "packet": frame ids continue past 4095
    /// by (ab)using the reserved bit next to the id's high nibble
    pub overlong_pct: u32,
    /// per-ten-thousand chance that an episode is a flood of tens of thousands of tiny
    /// frames that each produce an error result (anything counting them in 16 bits wraps)
    pub flood_pptt: u32,
}

fn src_packet(sim: &Sim, cfg: &StreamCfg) -> Packet {
    let c = sim.draw(100);
    let len = if c >= 100 - cfg.huge_pct {
        sim.pick(&[28672usize, 28665, 20000])
    } else if c >= 100 - cfg.huge_pct - cfg.large_pct {
        sim.pick(&[1793usize, 1785, 1800, 700])
    } else {
        // biased towards multi-frame packets: stale partial packets are the interesting state
        sim.pick(&[9usize, 15, 22, 0, 8, 16, 36, 57, 1, 14, 64])
    };
    let seed = sim.draw(1 << 12);
    let pattern = sim.pick(&[6u32, 3, 4, 1, 2, 0]);
    Packet {
        is_error: sim.chance(30),
        device_address: cfg.addrs[sim.draw(3) as usize],
        data: fill_pattern(pattern, seed, len),
    }
}

fn rand_bytes(sim: &Sim, n: usize, nonzero: bool) -> Vec<u8> {
    let seed = sim.draw(1 << 16);
    let mut v = fill_pattern(3, seed, n);
    if nonzero {
        for b in v.iter_mut() {
            if *b == 0 {
                *b = 0x5a;
            }
        }
    }
    v
}

/// One episode: the frames of one source packet, damaged by up to three faults.
pub fn episode(sim: &Sim, cfg: &StreamCfg, tag: Tag, out: &mut Vec<Item>) -> Result<(), EncodeFailed> {
    if cfg.giant_pct > 0 && sim.chance(cfg.giant_pct) {
        let last = sim.pick(&[4095u16, 1000, 255, 256, 40]);
        let cont = sim.draw(60) as u16;
        let addr = cfg.addrs[sim.draw(3) as usize];
        let not_error = sim.chance(70);
        for i in 0..=cont.min(last) {
            let id = if i == 0 { last } else { i };
            let mut data = [0x77u8; 8];
            data[0] = id as u8;
            let rf = RF {
                not_error,
                start: i == 0,
                multi: true,
                id,
                addr,
                data_len: 8,
                data,
            };
            out.push(Item {
                unit: encode(cfg.kind, &rf)?,
                tag,
                what: "giant-abandoned",
            });
        }
        sim.count("abandoned_giant_announcement");
        return Ok(());
    }
    if cfg.flood_pptt > 0 && cfg.fault_pct > 0 && sim.draw(10_000) >= 10_000 - cfg.flood_pptt.min(10_000) {
        let n = 66_000 + sim.draw(5_000);
        let addr = cfg.addrs[0];
        for i in 0..n {
            // alternately a frame the decoder rejects and a continuation frame without a packet
            let unit = if cfg.kind.is_bytes() {
                if i % 2 == 0 {
                    Unit::Body(vec![0x05])
                } else {
                    Unit::Body(cobs_encode(&raw_usart_image(true, false, true, 3, addr, 1, &[3])))
                }
            } else if i % 2 == 0 {
                Unit::Can(CanUnit::Frame(bxcan::Frame::new_data(bxcan::StandardId::new(0x123).unwrap(), bxcan::Data::new(&[1]).unwrap())))
            } else {
                let id = (1u32 << 28) | (1 << 26) | addr as u32;
                Unit::Can(CanUnit::Frame(bxcan::Frame::new_data(bxcan::ExtendedId::new(id).unwrap(), bxcan::Data::new(&[3]).unwrap())))
            };
            out.push(Item { unit, tag, what: "error-flood" });
        }
        sim.count("fault_flood_of_over_65536_rejected_frames");
        return Ok(());
    }
    if cfg.kind.is_bytes() && cfg.fault_pct > 0 && sim.chance(2) {
        // a burst of long link frames whose bodies contain zero bytes (each is a whole frame:
        // delimiter, length, that many bytes) - a receiver must take each one as a unit
        let n = 5 + sim.draw(36);
        for _ in 0..n {
            let l = 150 + sim.draw(106) as usize;
            let mut body = rand_bytes(sim, l, false);
            let z = sim.draw(l as u32) as usize;
            body[z] = 0;
            out.push(Item {
                unit: Unit::Body(body),
                tag,
                what: "zero-body-burst",
            });
        }
        sim.count("fault_burst_of_long_bodies_with_zeros");
        return Ok(());
    }
    if cfg.overlong_pct > 0 && sim.chance(cfg.overlong_pct) {
        overlong_episode(sim, cfg, tag, out);
        return Ok(());
    }
    let p = src_packet(sim, cfg);
    let mut rfs = frames_of(&p)?;
    let mut whats: Vec<&'static str> = vec!["valid"; rfs.len()];
    let faulty = sim.chance(cfg.fault_pct);
    let n_faults = if faulty { 1 + sim.draw(3) } else { 0 };

    // ---- stage 1: faults on whole ROSS frames
    let mut stage2 = 0;
    for _ in 0..n_faults {
        if sim.flag() {
            stage2 += 1;
            continue;
        }
        let n = rfs.len();
        if n == 0 {
            break;
        }
        let k = sim.draw(n as u32) as usize;
        match 1 + sim.draw(7) {
            1 => {
                if n >= 2 {
                    let keep = 1 + sim.draw(n as u32 - 1) as usize;
                    rfs.truncate(keep);
                    whats.truncate(keep);
                    sim.count("fault_interrupted_packet");
                }
            }
            2 => {
                rfs.remove(k);
                whats.remove(k);
                sim.count("fault_frame_dropped");
            }
            3 => {
                let f = rfs[k];
                rfs.insert(k, f);
                whats.insert(k, "duplicate");
                sim.count("fault_frame_duplicated");
            }
            4 => {
                if k + 1 < n {
                    rfs.swap(k, k + 1);
                    whats[k] = "swapped";
                    whats[k + 1] = "swapped";
                    sim.count("fault_frames_swapped");
                }
            }
            5 => {
                let f = &mut rfs[k];
                whats[k] = "header-rewritten";
                sim.count("fault_header_rewritten");
                match sim.draw(8) {
                    0 => f.not_error = !f.not_error,
                    1 => f.addr = cfg.addrs[sim.draw(3) as usize],
                    2 => f.start = !f.start,
                    3 => f.multi = !f.multi,
                    4 => f.id = (f.id + 1) & 0x0fff,
                    5 => f.id = f.id.wrapping_sub(1) & 0x0fff,
                    6 => f.id = sim.pick(&[0u16, 1, 2, 255, 256, 4095, 7]),
                    _ => {
                        f.data_len = sim.draw(9) as u8;
                        for i in f.data_len as usize..8 {
                            f.data[i] = 0;
                        }
                    }
                }
            }
            6 => {
                // a frame of another device / of the opposite type / of another packet
                let mut data = [0u8; 8];
                let dl = sim.draw(9) as u8;
                let bytes = rand_bytes(sim, dl as usize, false);
                data[..dl as usize].copy_from_slice(&bytes);
                let multi = sim.chance(70);
                let start = sim.chance(40);
                let id = sim.pick(&[1u16, 0, 2, 3, 5, 300, 4095]);
                if multi && dl >= 1 {
                    data[0] = id as u8;
                }
                let f = RF {
                    not_error: sim.flag(),
                    start,
                    multi,
                    id,
                    addr: cfg.addrs[sim.draw(3) as usize],
                    data_len: dl,
                    data,
                };
                rfs.insert(k, f);
                whats.insert(k, "foreign");
                sim.count("fault_foreign_frame");
            }
            _ => {
                // the start frame is retransmitted in mid-packet
                if let Some(first) = rfs.first().copied() {
                    rfs.insert(k.max(1).min(rfs.len()), first);
                    whats.insert(k.max(1).min(whats.len()), "start-again");
                    sim.count("fault_start_retransmitted");
                }
            }
        }
    }

    // ---- encode
    let mut items: Vec<Item> = Vec::with_capacity(rfs.len());
    for (rf, w) in rfs.iter().zip(whats.iter()) {
        items.push(Item {
            unit: encode(cfg.kind, rf)?,
            tag,
            what: w,
        });
    }

    // ---- stage 2: faults below the ROSS frame (bytes of a body / CAN frame fields)
    for _ in 0..stage2 {
        if items.is_empty() {
            break;
        }
        let k = sim.draw(items.len() as u32) as usize;
        if cfg.kind.is_bytes() {
            let choice = 1 + sim.draw(7);
            if choice == 7 {
                let n = 1 + sim.draw(5) as usize;
                let noise = rand_bytes(sim, n, true);
                items.insert(
                    k,
                    Item {
                        unit: Unit::Noise(noise),
                        tag,
                        what: "noise",
                    },
                );
                sim.count("fault_line_noise");
                continue;
            }
            let body = match &mut items[k].unit {
                Unit::Body(b) => b,
                _ => continue,
            };
            match choice {
                1 => {
                    if !body.is_empty() {
                        let pos = sim.draw(body.len() as u32) as usize;
                        body[pos] ^= 1 << sim.draw(8);
                        items[k].what = "bit-flipped";
                        sim.count("fault_bit_flip");
                    }
                }
                2 => {
                    if !body.is_empty() {
                        let pos = sim.draw(body.len() as u32) as usize;
                        body[pos] = 0;
                        items[k].what = "zero-byte-in-body";
                        sim.count("fault_zero_in_body");
                    }
                }
                3 => {
                    if !body.is_empty() {
                        let t = 1 + sim.draw(body.len() as u32) as usize;
                        let nl = body.len() - t;
                        body.truncate(nl);
                        items[k].what = "truncated";
                        sim.count("fault_body_truncated");
                    }
                }
                4 => {
                    let e = 1 + sim.draw(6) as usize;
                    let extra = rand_bytes(sim, e, sim.flag());
                    body.extend_from_slice(&extra);
                    body.truncate(255);
                    items[k].what = "extended";
                    sim.count("fault_body_extended");
                }
                5 => {
                    let l = match sim.draw(12) {
                        0 => 0usize,
                        1 => 1,
                        2 => 2,
                        3 => 4,
                        4 => 5,
                        5 => 6,
                        6 => 13,
                        7 => 14,
                        8 => 200,
                        9 => 255,
                        _ => sim.draw(256) as usize,
                    };
                    *body = rand_bytes(sim, l, sim.chance(70));
                    items[k].what = "arbitrary-body";
                    if l == 0 {
                        sim.count("fault_zero_length_frame");
                    } else {
                        sim.count("fault_arbitrary_body");
                    }
                }
                _ => {
                    // well-formed COBS around a header that lies about (or overstates) the data length
                    let actual = sim.pick(&[20usize, 9, 0, 8, 3, 100, 249]);
                    let declared = match sim.draw(4) {
                        0 => actual as u8,
                        1 => (actual as u8).wrapping_add(1),
                        2 => (actual as u8).wrapping_sub(1),
                        _ => sim.u8_any(),
                    };
                    let data = rand_bytes(sim, actual, false);
                    let raw = raw_usart_image(
                        sim.flag(),
                        sim.flag(),
                        sim.flag(),
                        sim.pick(&[0u16, 1, 2, 300, 4095]),
                        cfg.addrs[sim.draw(3) as usize],
                        declared,
                        &data,
                    );
                    let mut enc = cobs_encode(&raw);
                    enc.truncate(255);
                    *body = enc;
                    items[k].what = "crafted-length";
                    sim.count("fault_declared_length");
                }
            }
        } else {
            let choice = 1 + sim.draw(5);
            let dl = sim.draw(9) as usize;
            let data = rand_bytes(sim, dl, false);
            let unit = match choice {
                1 => {
                    sim.count("fault_can_standard_id");
                    CanUnit::Frame(bxcan::Frame::new_data(
                        bxcan::StandardId::new(sim.draw(0x800) as u16).unwrap(),
                        bxcan::Data::new(&data).unwrap(),
                    ))
                }
                2 => {
                    sim.count("fault_can_remote");
                    let id = (sim.u32_any()) & 0x1fff_ffff;
                    CanUnit::Frame(bxcan::Frame::new_remote(bxcan::ExtendedId::new(id).unwrap(), dl as u8))
                }
                3 => {
                    sim.count("fault_can_arbitrary");
                    // arbitrary identifier, biased to the run's addresses so that it can hit stale state
                    let mut id = sim.u32_any() & 0x1fff_ffff;
                    if sim.flag() {
                        id = (id & !0xffff) | cfg.addrs[sim.draw(3) as usize] as u32;
                    }
                    CanUnit::Frame(bxcan::Frame::new_data(
                        bxcan::ExtendedId::new(id).unwrap(),
                        bxcan::Data::new(&data).unwrap(),
                    ))
                }
                4 => {
                    sim.count("fault_can_overrun");
                    CanUnit::Overrun
                }
                _ => {
                    sim.count("fault_can_multi_without_id");
                    let id = (1u32 << 28) | ((sim.flag() as u32) << 27) | (1 << 26) | cfg.addrs[sim.draw(3) as usize] as u32;
                    CanUnit::Frame(bxcan::Frame::new_data(
                        bxcan::ExtendedId::new(id).unwrap(),
                        bxcan::Data::new(&[]).unwrap(),
                    ))
                }
            };
            let what = match choice {
                1 => "standard-id",
                2 => "remote",
                3 => "arbitrary-id",
                4 => "overrun",
                _ => "multi-without-id",
            };
            if choice == 4 {
                // an overrun loses frames
                let lose = (1 + sim.draw(3) as usize).min(items.len() - k);
                items.drain(k..k + lose);
                items.insert(k, Item { unit: Unit::Can(unit), tag, what });
            } else if sim.flag() {
                items[k] = Item { unit: Unit::Can(unit), tag, what };
            } else {
                items.insert(k, Item { unit: Unit::Can(unit), tag, what });
            }
        }
    }
    out.extend(items);
    Ok(())
}

/// A hostile sender continues a packet past the 4096-frame limit: 13-bit frame ids whose
/// bit 12 is put into the reserved bit next to the id's high nibble (USART header bit 4,
/// CAN identifier bit 20). A receiver must never take that bit as part of the id.
fn overlong_episode(sim: &Sim, cfg: &StreamCfg, tag: Tag, out: &mut Vec<Item>) {
    let total: u32 = sim.pick(&[8192u32, 4200, 6000]);
    let addr = cfg.addrs[sim.draw(3) as usize];
    let not_error = sim.chance(70);
    for i in 0..total {
        let id13 = if i == 0 { total - 1 } else { i };
        let start = i == 0;
        let mut data = [0x66u8; 8];
        data[0] = id13 as u8;
        let unit = if cfg.kind.is_bytes() {
            let mut raw = raw_usart_image(not_error, start, true, (id13 & 0x0fff) as u16, addr, 8, &data);
            raw[0] |= (((id13 >> 12) & 1) as u8) << 4;
            Unit::Body(cobs_encode(&raw))
        } else {
            let id = ((not_error as u32) << 28)
                | ((start as u32) << 27)
                | (1 << 26)
                | (((id13 >> 12) & 1) << 20)
                | (((id13 >> 8) & 0xf) << 16)
                | addr as u32;
            Unit::Can(CanUnit::Frame(bxcan::Frame::new_data(
                bxcan::ExtendedId::new(id).unwrap(),
                bxcan::Data::new(&data).unwrap(),
            )))
        };
        out.push(Item { unit, tag, what: "overlong" });
    }
    sim.count("overlong_packet_with_reserved_bit");
}

/// A complete, well-formed packet as items.
pub fn clean_packet_items(kind: LinkKind, p: &Packet, tag: Tag, out: &mut Vec<Item>) -> Result<(), EncodeFailed> {
    for rf in frames_of(p)? {
        out.push(Item {
            unit: encode(kind, &rf)?,
            tag,
            what: "valid",
        });
    }
    Ok(())
}

pub struct Loaded {
    pub frame_tags: Vec<Tag>,
    pub frame_announce: Vec<u32>,
    /// units that are not frames at all (a CAN overrun report)
    pub frame_is_frame: Vec<bool>,
    /// first wire unit of the first probe frame
    pub probe_start_unit: usize,
}

/// What the library's own decoder makes of a frame, as an announcement (0 if it is not a
/// start frame or is rejected). The bound A of C19 takes the maximum of this and the
/// reference reading, so that it stays an upper bound whatever the decoder tolerates
/// (the COBS crate, for one, skips leading zero bytes of a body).
fn sut_announce_usart(body: &[u8]) -> u32 {
    let b = body.to_vec();
    match sut(move || Frame::from_usart_frame(b)) {
        Ok(Ok(f)) if f.start_frame_flag => match f.frame_id {
            FrameId::LastFrameId(i) => i as u32 + 1,
            FrameId::CurrentFrameId(_) => 0,
        },
        _ => 0,
    }
}

fn sut_announce_can(f: &bxcan::Frame) -> u32 {
    let c = f.clone();
    match sut(move || Frame::from_bxcan_frame(c)) {
        Ok(Ok(f)) if f.start_frame_flag => match f.frame_id {
            FrameId::LastFrameId(i) => i as u32 + 1,
            FrameId::CurrentFrameId(_) => 0,
        },
        _ => 0,
    }
}

pub fn load(sim: &Sim, wire: &WireRef, items: &[Item]) -> Loaded {
    let mut w = wire.borrow_mut();
    let mut l = Loaded {
        frame_tags: Vec::new(),
        frame_announce: Vec::new(),
        frame_is_frame: Vec::new(),
        probe_start_unit: usize::MAX,
    };
    for it in items {
        if matches!(it.tag, Tag::Probe(_)) && l.probe_start_unit == usize::MAX {
            l.probe_start_unit = w.len();
        }
        match &it.unit {
            Unit::Noise(n) => {
                debug_assert!(n.iter().all(|b| *b != 0));
                w.bytes.extend_from_slice(n);
            }
            Unit::Body(b) => {
                debug_assert!(b.len() <= 255);
                w.bytes.push(0);
                w.bytes.push(b.len() as u8);
                w.bytes.extend_from_slice(b);
                l.frame_tags.push(it.tag);
                l.frame_is_frame.push(true);
                l.frame_announce.push(announce_usart_body(b).max(sut_announce_usart(b)));
            }
            Unit::Can(u) => {
                w.cframes.push(u.clone());
                l.frame_tags.push(it.tag);
                l.frame_is_frame.push(matches!(u, CanUnit::Frame(_)));
                l.frame_announce.push(match u {
                    CanUnit::Frame(f) => announce_can(f).max(sut_announce_can(f)),
                    CanUnit::Overrun => 0,
                });
            }
        }
    }
    drop(w);
    if sim.tracing() && items.len() > 3000 {
        sim.note(|| format!("(stream of {} items: too long to list)", items.len()));
    }
    if sim.tracing() && items.len() <= 3000 {
        for (i, it) in items.iter().enumerate() {
            let s = match &it.unit {
                Unit::Noise(n) => format!("noise {}", hex(n)),
                Unit::Body(b) => format!("00 {:02x} {}", b.len(), hex(&b[..b.len().min(40)])),
                Unit::Can(CanUnit::Frame(f)) => show_can(f),
                Unit::Can(CanUnit::Overrun) => "overrun".to_string(),
            };
            sim.note(|| format!("stream[{}] {:?} {}: {}", i, it.tag, it.what, s));
        }
    }
    l
}

thread_local! {
    static READS_AHEAD: std::cell::RefCell<[Option<bool>; 3]> = std::cell::RefCell::new([None; 3]);
}

/// Calibration, once per worker and link kind: does this receiver implementation take
/// input from the device beyond the frame it reports on (read-ahead into an internal
/// buffer)? Two single-frame packets are queued and polled once. Device-level
/// observations (how many units a poll took, which frame was taken last) are only used
/// as oracle inputs for receivers that do not read ahead; for the others the checks fall
/// back to their purely API-level formulations.
pub fn reads_ahead(kind: LinkKind) -> bool {
    let idx = match kind {
        LinkKind::Usart => 0,
        LinkKind::Can => 1,
        LinkKind::Serial => 2,
    };
    if let Some(v) = READS_AHEAD.with(|c| c.borrow()[idx]) {
        return v;
    }
    let sim = Sim::new(crate::tape::Tape::replay(Vec::new()), false);
    let wire = Wire::new(kind);
    let back = Wire::new(kind);
    let p1 = Packet { is_error: false, device_address: 0x0011, data: vec![1, 2, 3] };
    let p2 = Packet { is_error: false, device_address: 0x0022, data: vec![4, 5] };
    let mut items = Vec::new();
    let v = if clean_packet_items(kind, &p1, Tag::Prefix, &mut items).is_ok() {
        load(&sim, &wire, &items);
        let end1 = wire.borrow().len();
        let mut more = Vec::new();
        if clean_packet_items(kind, &p2, Tag::Prefix, &mut more).is_ok() {
            load(&sim, &wire, &more);
            match sut(|| AnyLink::new(kind, Dev::new(&sim, "cal", &wire, &back))) {
                Ok(mut rx) => {
                    let out = poll(&sim, "cal", &mut rx, &wire);
                    matches!(out.res, Ok(Ok(_))) && out.cursor_after > end1
                }
                Err(_) => false,
            }
        } else {
            false
        }
    } else {
        false
    };
    READS_AHEAD.with(|c| c.borrow_mut()[idx] = Some(v));
    v
}

/// Calibrates all three links at process start, so that no run's measurements (heap
/// accounting in particular) depend on whether the calibration happened inside it.
pub fn calibrate_all() {
    for k in [LinkKind::Usart, LinkKind::Can, LinkKind::Serial] {
        let _ = reads_ahead(k);
    }
}

fn new_receiver(sim: &Sim, kind: LinkKind, wire: &WireRef, back: &WireRef) -> AnyLink {
    // constructed in the SUT allocation domain: whatever a fresh receiver holds is "fresh"
    match sut(|| AnyLink::new(kind, Dev::new(sim, "rx", wire, back))) {
        Ok(l) => l,
        Err(_) => panic!("receiver constructor crashed"),
    }
}

fn draw_cfg(sim: &Sim, kind: LinkKind, tier: Tier, long: bool) -> StreamCfg {
    let a = sim.pick(&[0x0101u16, 0x0000, 0xffff, 0x1234]);
    let b = sim.pick(&[0x0101u16, 0x0202, 0xfffe, 0x00ff]);
    let c = sim.pick(&[0x0303u16, 0x0101, 0xff00]);
    let (large_pct, huge_pct) = match (tier, long, sim.draw(20)) {
        (Tier::Thorough, _, 19) => (10, 4),
        (_, true, 18) => (6, 1),
        (_, _, 17) => (10, 0),
        _ => (0, 0),
    };
    StreamCfg {
        kind,
        addrs: [a, b, c],
        large_pct,
        huge_pct,
        fault_pct: sim.pick(&[60u32, 100, 30, 10]),
        giant_pct: if long { sim.pick(&[2u32, 0, 10]) } else { sim.pick(&[0u32, 0, 5]) },
        overlong_pct: 0,
        flood_pptt: if long { 1 } else { 0 },
    }
}

// ------------------------------------------------------------------ C06 ----

pub fn run_c06(sim: &Sim, prop: &str, tier: Tier) -> Outcome {
    let kind = LinkKind::from_index(sim.draw(3));
    let mode = sim.draw(7);
    let wire = Wire::new(kind);
    let back = Wire::new(kind);
    wire.borrow_mut().policy = schedule_policy(sim, mode, kind);
    let mut cfg = draw_cfg(sim, kind, tier, false);
    if sim.draw(20_000) == 19_999 {
        cfg.flood_pptt = 3_000;
    }
    if tier == Tier::Quick && sim.draw(500) == 499 {
        // the 4096-frame size belongs to every tier, it is just rare in the quick one
        cfg.huge_pct = 25;
    }

    let max_eps = match tier {
        Tier::Quick => 6,
        Tier::Thorough => 40,
    };
    let n_eps = if sim.chance(80) { sim.draw(max_eps.min(6) + 1) } else { sim.draw(max_eps + 1) };
    let mut items: Vec<Item> = Vec::new();
    let enc_fail = |e: EncodeFailed| Outcome::Foreign("C10.encode", e.0);
    for _ in 0..n_eps {
        if let Err(e) = episode(sim, &cfg, Tag::Prefix, &mut items) {
            return enc_fail(e);
        }
    }

    // probes: complete, well-formed, back-to-back, distinct
    let mk_probe = |n: u32| {
        let len = sim.pick(&[9usize, 3, 0, 8, 15, 22, 57, 1800]);
        let len = if len == 1800 && cfg.large_pct == 0 { 16 } else { len };
        Packet {
            is_error: sim.chance(30),
            device_address: cfg.addrs[sim.draw(3) as usize],
            data: fill_pattern(sim.pick(&[6u32, 2, 1]), 100 + n + sim.draw(50), len),
        }
    };
    // optionally leave a stale partial packet that the probes can be confused with
    let mut p1 = mk_probe(1);
    // rarely the first probe is a packet of the maximum size class (4096 frames, or the sizes
    // next to it): the largest thing a receiver ever has to complete, right before the probe
    // that must get through
    if sim.draw(500) == 499 {
        p1.data = fill_pattern(sim.pick(&[6u32, 3, 0]), sim.draw(1000), sim.pick(&[28672usize, 28666, 28665, 28659]));
        sim.probe("first_probe_of_4096_frames");
    }
    if sim.chance(50) {
        let stale_len = sim.pick(&[22usize, 15, 36, 9, 64]);
        let stale = Packet {
            is_error: if sim.chance(80) { p1.is_error } else { !p1.is_error },
            device_address: if sim.chance(80) { p1.device_address } else { cfg.addrs[sim.draw(3) as usize] },
            data: fill_pattern(3, sim.draw(1000), stale_len),
        };
        match frames_of(&stale) {
            Ok(rfs) => {
                let keep = 1 + sim.draw(rfs.len() as u32 - 1) as usize;
                for rf in rfs.iter().take(keep) {
                    match encode(kind, rf) {
                        Ok(u) => items.push(Item { unit: u, tag: Tag::Prefix, what: "stale-partial" }),
                        Err(e) => return enc_fail(e),
                    }
                }
                sim.count("stale_partial_before_probes");
            }
            Err(e) => return enc_fail(e),
        }
    }
    let mut p2 = mk_probe(2);
    // mostly distinct probes; sometimes the very same packet twice (a sender that repeats
    // itself), or the second probe differs from the first in one respect only
    let identical_probes = match sim.draw(12) {
        0 => {
            p2 = p1.clone();
            sim.probe("identical_probes");
            true
        }
        1 => {
            p2 = p1.clone();
            match sim.draw(3) {
                0 => p2.is_error = !p2.is_error,
                1 => p2.device_address = cfg.addrs[sim.draw(3) as usize],
                _ => {
                    if let Some(b) = p2.data.last_mut() {
                        *b ^= 0x80;
                    }
                }
            }
            packet_eq(&p1, &p2)
        }
        _ => false,
    };
    if packet_eq(&p1, &p2) && !identical_probes {
        p2.data.push(0xa5);
    }
    // rarely the prefix ends with a complete, valid packet of the maximum size class (4096
    // frames, or the sizes next to it): the largest thing a receiver ever has to complete
    if sim.draw(400) == 399 {
        let big = Packet {
            is_error: sim.chance(30),
            device_address: if sim.chance(70) { p1.device_address } else { cfg.addrs[sim.draw(3) as usize] },
            data: fill_pattern(sim.pick(&[6u32, 3, 0]), sim.draw(1000), sim.pick(&[28672usize, 28666, 28665, 28659])),
        };
        if let Err(e) = clean_packet_items(kind, &big, Tag::Prefix, &mut items) {
            return enc_fail(e);
        }
        sim.probe("prefix_ends_with_packet_of_4096_frames");
    }
    // sometimes the prefix ends with a complete copy of the first probe (the same packet was
    // sent before, successfully or not: repeating a packet is ordinary traffic)
    if sim.chance(8) {
        if let Err(e) = clean_packet_items(kind, &p1, Tag::Prefix, &mut items) {
            return enc_fail(e);
        }
        sim.count("prefix_ends_with_copy_of_first_probe");
    }
    if let Err(e) = clean_packet_items(kind, &p1, Tag::Probe(1), &mut items) {
        return enc_fail(e);
    }
    // line noise may sit between any two frames, also right before, between and after the probes
    let noisy_probes = kind.is_bytes() && sim.chance(20);
    if noisy_probes && sim.flag() {
        let n = 1 + sim.draw(4) as usize;
        items.push(Item { unit: Unit::Noise(rand_bytes(sim, n, true)), tag: Tag::Probe(2), what: "noise" });
    }
    if let Err(e) = clean_packet_items(kind, &p2, Tag::Probe(2), &mut items) {
        return enc_fail(e);
    }
    if noisy_probes {
        let n = 1 + sim.draw(6) as usize;
        items.push(Item { unit: Unit::Noise(rand_bytes(sim, n, true)), tag: Tag::Probe(2), what: "trailing-noise" });
        sim.count("noise_after_last_frame");
    }

    // Two ways to tell which results belong to the probes:
    //  * one phase: everything is on the wire from the start and a result is attributed to
    //    the frame taken last from the device (only for receivers that do not read ahead);
    //  * two phases: the prefix is supplied and drained to quiescence, then the probes are
    //    supplied - every result of the second phase belongs to the probes (purely API-level).
    let read_ahead = reads_ahead(kind);
    // the receiver is a full link endpoint: in some runs the application also sends through
    // it between polls, against a transmitter that is busy now and then (delays only). A send
    // path may take input from the device (e.g. park received bytes while the transmitter is
    // busy): such runs are two-phase (results are attributed at the API level) and without
    // receiver restarts (a restart would lose what the old object had parked, mid-frame).
    let send_pct = sim.pick(&[0u32, 0, 0, 0, 10, 40]);
    let two_phase = read_ahead || send_pct > 0 || sim.chance(25);
    let n_prefix_items = items.iter().take_while(|i| i.tag == Tag::Prefix).count();
    let mut frame_tags: Vec<Tag> = Vec::new();
    let phases: Vec<&[Item]> = if two_phase {
        vec![&items[..n_prefix_items], &items[n_prefix_items..]]
    } else {
        vec![&items[..]]
    };
    sim.set_sample(|| {
        format!(
            "link={} schedule_mode={} {} prefix=[{}] P1={} P2={}",
            kind.name(),
            mode,
            if two_phase { "two-phase" } else { "one-phase" },
            items
                .iter()
                .filter(|i| i.tag == Tag::Prefix)
                .map(|i| i.what)
                .collect::<Vec<_>>()
                .join(","),
            show_packet(&p1),
            show_packet(&p2)
        )
    });
    let restart_pct = if send_pct > 0 { 0 } else { sim.pick(&[0u32, 0, 10, 40]) };
    // rarely: one very long "no data yet" burst at one unit position near or inside the probes
    // (inside a USART frame a wait the receiver must sit out; between frames a long pause)
    let long_burst = if sim.chance(1) { sim.pick(&[12_000u32, 70_000, 150_000]) } else { 0 };
    let long_burst_at = sim.draw(64) as usize;

    let mut rx = new_receiver(sim, kind, &wire, &back);
    let sig = |what: &str| format!("{}:{}", kind.name(), what);
    if send_pct > 0 {
        let mut t = crate::dev::TxPolicy::benign();
        match kind {
            LinkKind::Serial => {
                t.short = sim.pick(&[50u32, 0]);
                t.interrupted = sim.pick(&[0u32, 20]);
            }
            _ => {
                t.wb = sim.pick(&[50u32, 90, 10]);
                t.wb_burst = sim.pick(&[3u32, 1, 50]);
            }
        }
        back.borrow_mut().tx = t;
        sim.probe("receiver_object_also_sends");
    }

    let mut probe_oks: Vec<Packet> = Vec::new();
    let mut p1_errors = 0u32;
    let mut n_frames = 0usize;
    for (phase, phase_items) in phases.iter().enumerate() {
        let probe_phase = two_phase && phase == 1;
        let units_before_load = wire.borrow().len();
        let loaded = load(sim, &wire, phase_items);
        if long_burst > 0 && (probe_phase || !two_phase) {
            // position: counted from a little before the first probe frame
            let probes_at = if two_phase { units_before_load } else { loaded.probe_start_unit.min(wire.borrow().len()) };
            let pos = (probes_at + long_burst_at).saturating_sub(16).min(wire.borrow().len().saturating_sub(1));
            wire.borrow_mut().forced_wb = Some((pos, long_burst));
            sim.probe("long_no_data_burst_near_probes");
        }
        frame_tags.extend(loaded.frame_tags.iter().copied());
        n_frames = frame_tags.len();
        // where the probes start on the wire (one-phase runs)
        let probe_start_unit = if two_phase {
            usize::MAX
        } else {
            loaded.probe_start_unit
        };
        if probe_phase {
            sim.event(crate::scenario::EV_APP, 2, 0, || "prefix drained to quiescence; the two probe packets arrive now".to_string());
            wire.borrow_mut().drain = false;
        }
        let mut polls = 0usize;
        let phase_frames = loaded.frame_tags.len();
        let soft_budget = 4 * phase_frames + 300;
        let hard_budget = soft_budget + 2 * phase_frames + 50;
        loop {
            // receiver restart at a frame boundary while the peer keeps transmitting
            if !probe_phase && !read_ahead {
                let (cur, at_b) = {
                    let w = wire.borrow();
                    (w.cursor, w.at_boundary())
                };
                if restart_pct > 0 && at_b && cur < probe_start_unit && cur > 0 && sim.chance(restart_pct) {
                    drop(rx);
                    rx = new_receiver(sim, kind, &wire, &back);
                    sim.count("receiver_restarted");
                    sim.event(crate::scenario::EV_APP, 1, cur as u64, || "receiver object recreated (restart)".to_string());
                }
            }
            if send_pct > 0 && sim.chance(send_pct) {
                let p = Packet {
                    is_error: false,
                    device_address: 0x0e0f,
                    data: fill_pattern(0, polls as u32, sim.pick(&[4usize, 20, 9])),
                };
                match crate::scenario::send_on(sim, "rx", &mut rx, &p, &wire) {
                    Err(Crash::Panic(m)) => return Outcome::Foreign("C14.exact", format!("sender panicked: {}", m)),
                    Err(Crash::Blocked) => return Outcome::Foreign("C14.term", "sender blocked".to_string()),
                    _ => {}
                }
                // what it wrote is of no interest here
                let mut b = back.borrow_mut();
                b.bytes.clear();
                b.cframes.clear();
            }
            let out = poll(sim, "rx", &mut rx, &wire);
            polls += 1;
            match &out.res {
                Err(Crash::Blocked) => {
                    return fail(
                        prop,
                        "C06.noblock",
                        format!(
                            "poll never returns: the receiver keeps reading after the supplied frames are exhausted ({}, {} of {} frames taken)",
                            kind.name(),
                            out.frames_after,
                            n_frames
                        ),
                        sig("blocked"),
                    )
                }
                Err(Crash::Panic(m)) => {
                    let last = if out.frames_after > 0 { items_frame_what(&items, out.frames_after - 1) } else { "none" };
                    return fail(
                        prop,
                        "C06.total",
                        format!("receiver panicked while polling (last frame taken: {}): {}", last, m),
                        sig(&format!("panic:{}", panic_site(m))),
                    );
                }
                Ok(Err(InterfaceError::NoPacketReceived)) => {
                    if wire.borrow().in_flight() == 0 {
                        break;
                    }
                    if out.cursor_after == out.cursor_before && wire.borrow().drain {
                        return fail(
                            prop,
                            "C06.noblock",
                            "receiver reports 'nothing received' without taking available input: no progress".to_string(),
                            sig("no-progress"),
                        );
                    }
                }
                Ok(res) => {
                    // (a result produced before a whole frame was taken - e.g. an over-long
                    // length byte rejected at once - is not forbidden by itself; a receiver that
                    // loses its place in the stream that way is caught by the probe clause)
                    let tag = if two_phase {
                        if probe_phase {
                            Tag::Probe(0)
                        } else {
                            Tag::Prefix
                        }
                    } else {
                        frame_tags.get(out.frames_after.saturating_sub(1)).copied().unwrap_or(Tag::Prefix)
                    };
                    match (tag, res) {
                        (Tag::Probe(_), Ok(p)) => probe_oks.push(p.clone()),
                        // one-phase: an error on a frame of the first probe; two-phase: any error
                        // reported while the probes are processed
                        (Tag::Probe(1), Err(_)) | (Tag::Probe(0), Err(_)) => p1_errors += 1,
                        (Tag::Prefix, Ok(_)) => sim.count("prefix_packet_delivered"),
                        (Tag::Prefix, Err(InterfaceError::BuilderError(_))) => sim.probe("prefix_builder_error"),
                        (Tag::Prefix, Err(InterfaceError::FrameError(_))) => sim.probe("prefix_frame_error"),
                        _ => {}
                    }
                }
            }
            {
                let w = wire.borrow();
                let st = (bucket(w.frames_taken.min(n_frames)) << 8)
                    | (bucket(w.in_flight()) << 4)
                    | match &out.res {
                        Ok(Ok(_)) => 1,
                        Ok(Err(InterfaceError::NoPacketReceived)) => 0,
                        Ok(Err(InterfaceError::BuilderError(_))) => 2,
                        Ok(Err(InterfaceError::FrameError(_))) => 3,
                        _ => 4,
                    };
                drop(w);
                sim.abstract_state(st);
            }
            if polls > soft_budget {
                wire.borrow_mut().drain = true;
            }
            if polls > hard_budget {
                return fail(
                    prop,
                    "C06.noblock",
                    format!("{} polls did not drain {} frames", polls, phase_frames),
                    sig("no-progress"),
                );
            }
        }
    }
    if two_phase {
        sim.count("two_phase_runs");
    }

    // ---- the probe clause
    let ok_both = probe_oks.len() == 2 && packet_eq(&probe_oks[0], &p1) && packet_eq(&probe_oks[1], &p2);
    let ok_second = probe_oks.len() == 1 && packet_eq(&probe_oks[0], &p2) && p1_errors >= 1;
    if ok_both {
        sim.count("probe_both_delivered");
    }
    if ok_second {
        sim.probe("probe_first_dropped_with_error");
    }
    if n_eps > 0 {
        sim.probe("hostile_prefix");
    }
    if !(ok_both || ok_second) {
        let what = if probe_oks.iter().any(|p| !packet_eq(p, &p1) && !packet_eq(p, &p2)) {
            "altered-or-stitched"
        } else if identical_probes && probe_oks.len() == 1 {
            "one-of-two-identical-probes-lost-silently"
        } else if !probe_oks.iter().any(|p| packet_eq(p, &p2)) {
            "second-probe-lost"
        } else if probe_oks.len() == 1 {
            "first-probe-lost-silently"
        } else {
            "probe-sequence"
        };
        return fail(
            prop,
            "C06.probe",
            format!(
                "after the prefix, probes P1={} P2={} arrived back-to-back; the polls that processed them returned Ok[{}] and {} error(s) for the first probe ({})",
                show_packet(&p1),
                show_packet(&p2),
                probe_oks.iter().map(show_packet).collect::<Vec<_>>().join(", "),
                p1_errors,
                what
            ),
            sig(what),
        );
    }
    Outcome::Pass
}

fn items_frame_what(items: &[Item], frame_idx: usize) -> &'static str {
    items
        .iter()
        .filter(|i| !matches!(i.unit, Unit::Noise(_)))
        .nth(frame_idx)
        .map(|i| i.what)
        .unwrap_or("?")
}

/// Stable part of a panic message: "file:line" of the panic site inside /repo
/// or a dependency (used in signatures for known findings).
pub fn panic_site(msg: &str) -> String {
    match msg.rfind(" at ") {
        Some(i) => {
            let loc = &msg[i + 4..];
            let loc = loc.rsplit('/').next().unwrap_or(loc);
            loc.to_string()
        }
        None => "unknown".to_string(),
    }
}

// ------------------------------------------------------------------ C19 ----

/// The constant of C19.between: room for a partial raw link frame kept between polls by a
/// resumable receiver (at most 255 B, 512 B with a doubling buffer), a bounded backlog of a
/// kilobyte or two, small bookkeeping and the like. Anything that grows with the history
/// exceeds any constant soon (a retained frame is 18 B: 4 KiB are 230 frames).
const BETWEEN_CONST: isize = 4096;

/// Floor of C19.frame: single allocations up to this size are never questioned (a raw link
/// frame buffer stays within 255 B, 512 B with doubling). It was 4 KiB for a while, to
/// tolerate a variant with a bounded backlog; that variant allocates 4.6 KiB in one piece
/// anyway, and at 4 KiB an independent mutant whose raw frame buffer grows to 2 KiB within
/// one poll went unreported.
const FRAME_ALLOC_FLOOR: isize = 1024;

/// Long traffic histories, heap measured after every poll.
pub fn run_c19(sim: &Sim, prop: &str, tier: Tier) -> Outcome {
    use crate::alloc;
    let kind = LinkKind::from_index(sim.draw(3));
    let mode = sim.draw(7);
    let wire = Wire::new(kind);
    let back = Wire::new(kind);
    wire.borrow_mut().policy = schedule_policy(sim, mode, kind);
    let mut cfg = draw_cfg(sim, kind, tier, true);
    // clean-only histories are a separate configuration
    let clean_only = sim.chance(15);
    if clean_only {
        cfg.fault_pct = 0;
        cfg.giant_pct = 0;
    } else {
        // swarm: some runs contain over-long packets, some have a device that fails reads
        if sim.chance(4) {
            cfg.overlong_pct = 2;
        }
        if kind.is_bytes() && sim.chance(25) {
            wire.borrow_mut().policy.hard_err_pm = sim.pick(&[3u32, 20]);
        }
    }
    let n_eps = match tier {
        Tier::Quick => 20 + sim.draw(sim.pick(&[100u32, 400, 30])),
        Tier::Thorough => 20 + sim.draw(sim.pick(&[400u32, 3000, 100, 20000])),
    };
    let mut items: Vec<Item> = Vec::new();
    for _ in 0..n_eps {
        if let Err(e) = episode(sim, &cfg, Tag::Prefix, &mut items) {
            return Outcome::Foreign("C10.encode", e.0);
        }
    }
    let loaded = load(sim, &wire, &items);
    let n_frames = loaded.frame_tags.len();
    sim.count_n("frames_supplied", n_frames as u64);
    sim.set_sample(|| {
        format!(
            "link={} schedule_mode={} episodes={} frames={} clean_only={} fault_pct={} giant_pct={} large/huge={}/{}",
            kind.name(),
            mode,
            n_eps,
            n_frames,
            clean_only,
            cfg.fault_pct,
            cfg.giant_pct,
            cfg.large_pct,
            cfg.huge_pct
        )
    });
    drop(items);

    let base = alloc::sut_live();
    let mut rx = new_receiver(sim, kind, &wire, &back);
    let fresh = alloc::sut_live() - base;
    let sig = |what: &str| format!("{}:{}", kind.name(), what);

    let read_ahead = reads_ahead(kind);
    // the receiver is a full link endpoint: in some runs the application also sends through
    // it between polls, against a device that may delay, truncate or fail writes
    let send_pct = if clean_only { 0 } else { sim.pick(&[0u32, 0, 0, 5, 25]) };
    if send_pct > 0 {
        let mut t = crate::dev::TxPolicy::benign();
        match kind {
            LinkKind::Serial => {
                t.short = sim.pick(&[0u32, 50]);
                t.hard = sim.pick(&[0u32, 30]);
                t.flush_err = sim.pick(&[0u32, 20]);
            }
            _ => {
                t.wb = sim.pick(&[0u32, 50]);
                t.wb_burst = 3;
            }
        }
        back.borrow_mut().tx = t;
        sim.probe("receiver_object_also_sends");
    }
    // What the *send* path of the link object keeps (an encode buffer reused across sends, a
    // copy of the packet sent last) is not receiver memory. Growth of the object during send
    // calls is set aside, up to a bound proportional to the largest packet sent so far; beyond
    // that bound it counts as receiver memory again (a send that hoards received input grows
    // with the traffic, not with what was sent).
    let mut tx_growth: isize = 0;
    let mut tx_max_wire: isize = 0;
    let mut announced: u32 = 0; // A: largest announcement taken since the last boundary
    let mut polls = 0usize;
    let soft_budget = 4 * n_frames + 300;
    let hard_budget = soft_budget + 2 * n_frames + 50;
    let mut max_between: isize = 0;
    let mut accepted_since_boundary: usize = 0;
    loop {
        if send_pct > 0 && sim.chance(send_pct) {
            let p = Packet {
                is_error: false,
                device_address: 0x0e0f,
                data: fill_pattern(0, polls as u32, sim.pick(&[4usize, 20, 60])),
            };
            let live_before_send = alloc::sut_live();
            match crate::scenario::send_on(sim, "rx", &mut rx, &p, &wire) {
                Err(Crash::Panic(m)) => return Outcome::Foreign("C14.exact", format!("sender panicked: {}", m)),
                Err(Crash::Blocked) => return Outcome::Foreign("C14.term", "sender blocked".to_string()),
                _ => {}
            }
            tx_growth += (alloc::sut_live() - live_before_send).max(0);
            let n_fr = if p.data.len() <= 8 { 1 } else { (p.data.len() - 1) / 7 + 1 };
            tx_max_wire = tx_max_wire.max(16 * n_fr as isize);
            // what it wrote is of no interest here
            let mut b = back.borrow_mut();
            b.bytes.clear();
            b.cframes.clear();
        }
        let out = poll(sim, "rx", &mut rx, &wire);
        polls += 1;
        for i in out.frames_before..out.frames_after.min(n_frames) {
            announced = announced.max(loaded.frame_announce[i]);
        }
        enum Class {
            Boundary,
            Nothing,
            Other,
        }
        let (class, payload_len, shown) = match &out.res {
            Err(c) => {
                // the frame-buffer clause is judged even for a call that never returned
                let allowed_single = FRAME_ALLOC_FLOOR.max(96 * announced as isize);
                if out.max_single > allowed_single {
                    return fail(
                        prop,
                        "C19.frame",
                        format!(
                            "a single allocation of {} bytes was made during a poll that then {} (largest announcement in flight {}): beyond the 255 bytes a link frame's length byte can announce",
                            out.max_single,
                            if matches!(c, Crash::Blocked) { "never returned" } else { "panicked" },
                            announced
                        ),
                        sig("frame-buffer"),
                    );
                }
                return match c {
                    Crash::Blocked => Outcome::Foreign("C06.noblock", "receiver blocked".to_string()),
                    Crash::Panic(m) => Outcome::Foreign("C06.total", format!("receiver panicked: {}", m)),
                };
            }
            Ok(Ok(p)) => (Class::Boundary, p.data.len(), "Ok(packet)"),
            Ok(Err(InterfaceError::BuilderError(_))) => (Class::Boundary, 0, "Err(BuilderError)"),
            Ok(Err(InterfaceError::NoPacketReceived)) => (Class::Nothing, 0, "NoPacketReceived"),
            Ok(Err(_)) => (Class::Other, 0, "Err(other)"),
        };
        // frames taken without any result were accepted into the packet under reassembly
        let upto = match class {
            Class::Nothing => out.frames_after,
            _ => out.frames_after.saturating_sub(1).max(out.frames_before),
        };
        let silently = (out.frames_before..upto.min(n_frames)).filter(|i| loaded.frame_is_frame[*i]).count();
        accepted_since_boundary += silently;
        let quiescent = matches!(class, Class::Nothing) && wire.borrow().in_flight() == 0;
        let stuck = matches!(class, Class::Nothing) && out.cursor_after == out.cursor_before && wire.borrow().drain && !quiescent;
        let max_single = out.max_single;
        let frames_in_poll = out.frames_after - out.frames_before;
        drop(out); // the returned packet / error is released before measuring
        let live = alloc::sut_live() - base;
        // (fresh level of this object including what its send path may keep, see above)
        let fresh = fresh + tx_growth.min(64 + 4 * tx_max_wire);

        // C19.frame: no single allocation beyond what a one-byte length can announce,
        // unless explained by the packet in flight or the payload handed out
        let allowed_single = FRAME_ALLOC_FLOOR.max(96 * announced as isize).max(4 * payload_len as isize);
        if max_single > allowed_single {
            return fail(
                prop,
                "C19.frame",
                format!(
                    "a single allocation of {} bytes was made during a poll that took {} frame(s) (largest announcement in flight {}, returned payload {} bytes): beyond the 255 bytes a link frame's length byte can announce",
                    max_single, frames_in_poll, announced, payload_len
                ),
                sig("frame-buffer"),
            );
        }
        match class {
            Class::Boundary => {
                sim.count("boundaries");
                if live > fresh {
                    return fail(
                        prop,
                        "C19.boundary",
                        format!(
                            "right after {} the receiver holds {} bytes, a fresh receiver holds {} (poll #{}, {} of {} frames taken)",
                            shown,
                            live,
                            fresh,
                            polls,
                            wire.borrow().frames_taken,
                            n_frames
                        ),
                        sig(&format!("held-after-{}", shown)),
                    );
                }
                if announced > 1 {
                    sim.probe("boundary_after_multi_frame");
                }
                // (a receiver that reads ahead may already have taken the next packet's start
                // frame from the device: the bound must stay an upper bound)
                if !read_ahead {
                    announced = 0;
                }
                accepted_since_boundary = 0;
            }
            _ => {
                let bound = fresh + BETWEEN_CONST + 96 * announced as isize;
                if live > bound {
                    return fail(
                        prop,
                        "C19.between",
                        format!(
                            "between polls the receiver holds {} bytes; bound is fresh({}) + 4096 + 96 x announced({}) = {} (poll #{}, {} of {} frames taken)",
                            live,
                            fresh,
                            announced,
                            bound,
                            polls,
                            wire.borrow().frames_taken,
                            n_frames
                        ),
                        sig("held-between-polls"),
                    );
                }
                // (the memory condition keeps a receiver that silently skips frames out of this
                // clause: 4096 frames need at least 18 B each in the tightest representation)
                if !read_ahead && accepted_since_boundary > 4096 && live - fresh > 18 * 4096 + 1024 {
                    return fail(
                        prop,
                        "C19.cap",
                        format!(
                            "{} frames were taken into one packet without a delivery or reassembly error; a packet has at most 4096 frames (the receiver holds {} bytes)",
                            accepted_since_boundary, live
                        ),
                        sig("more-than-4096-frames-in-one-packet"),
                    );
                }
                if live > fresh {
                    sim.probe("partial_packet_held_between_polls");
                    max_between = max_between.max(live - fresh);
                }
            }
        }
        if polls % 64 == 0 {
            let st = (bucket((live - fresh).max(0) as usize) << 8) | (bucket(announced as usize) << 4) | bucket(wire.borrow().in_flight());
            sim.abstract_state(st);
        }
        if quiescent {
            break;
        }
        if stuck {
            return Outcome::Foreign("C06.noblock", "no progress".to_string());
        }
        if polls > soft_budget {
            wire.borrow_mut().drain = true;
        }
        if polls > hard_budget {
            return Outcome::Foreign("C06.noblock", "polls did not drain the stream".to_string());
        }
    }
    sim.count_n("polls", polls as u64);
    let hard = wire.borrow().hard_errors;
    if hard > 0 {
        sim.count_n("device_read_errors", hard);
        sim.probe("history_with_device_read_errors");
    }
    if max_between > 4096 {
        sim.probe("held_over_4k_for_large_packet");
    }
    if n_frames >= 1000 {
        sim.probe("history_over_1000_frames");
    }
    // a receiver dropped at quiescence must release everything it allocated
    drop(rx);
    let left = alloc::sut_live() - base;
    if left > 0 {
        return fail(
            prop,
            "C19.boundary",
            format!("{} bytes allocated by the receiver were never released (leaked) over a history of {} frames", left, n_frames),
            sig("leak-at-drop"),
        );
    }
    Outcome::Pass
}
