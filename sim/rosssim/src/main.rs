//! rosssim - deterministic simulator with fault injection for ross-protocol.
//!
//!   rosssim worker --prop C13 --tier quick --seed N --runs a..b [--enum a..b] ...
//!   rosssim replay <file>
//!   rosssim hashes --prop C13 --tier quick --seed N --runs a..b
//!   rosssim uniq <hash files...>
//!   rosssim enum-groups --prop C13

mod alloc;
mod builder;
mod dev;
mod e2e;
mod enumerate;
mod events;
mod gen;
mod json;
mod link_clean;
mod link_hostile;
mod node;
mod refcodec;
mod runner;
mod scenario;
mod send;
mod sim;
mod simclock;
mod tape;

use json::J;
use runner::{run_once, RunOutput};
use scenario::Tier;
use std::collections::{BTreeMap, BTreeSet};
use std::io::Write;
use tape::{mix_seed, Tape};

#[global_allocator]
static GLOBAL: alloc::Counting = alloc::Counting;

struct Args {
    map: BTreeMap<String, String>,
    pos: Vec<String>,
}

fn parse_args(args: &[String]) -> Args {
    let mut map = BTreeMap::new();
    let mut pos = Vec::new();
    let mut i = 0;
    while i < args.len() {
        if let Some(k) = args[i].strip_prefix("--") {
            if i + 1 < args.len() && !args[i + 1].starts_with("--") {
                map.insert(k.to_string(), args[i + 1].clone());
                i += 2;
            } else {
                map.insert(k.to_string(), "1".to_string());
                i += 1;
            }
        } else {
            pos.push(args[i].clone());
            i += 1;
        }
    }
    Args { map, pos }
}

fn parse_range(s: &str) -> (u64, u64) {
    let mut it = s.split("..");
    let a = it.next().unwrap_or("0").parse().unwrap_or(0);
    let b = it.next().unwrap_or("0").parse().unwrap_or(0);
    (a, b)
}

fn parse_tier(s: &str) -> Tier {
    if s == "thorough" {
        Tier::Thorough
    } else {
        Tier::Quick
    }
}

struct Agg {
    evaluations: u64,
    nontrivial: u64,
    foreign: BTreeMap<String, u64>,
    counters: BTreeMap<&'static str, u64>,
    states: BTreeSet<u32>,
    transitions: BTreeSet<(u32, u32)>,
    steps: u64,
    samples: Vec<String>,
    hashes: Vec<u64>,
    violations: u64,
    replays_written: u64,
    harness_errors: Vec<String>,
    determinism_checked: u64,
    determinism_mismatch: u64,
    draws: u64,
    seen_sigs: BTreeSet<(String, String)>,
}

fn out_line(s: &str) {
    let stdout = std::io::stdout();
    let mut l = stdout.lock();
    let _ = l.write_all(s.as_bytes());
    let _ = l.write_all(b"\n");
    let _ = l.flush();
}

#[allow(clippy::too_many_arguments)]
fn process(
    agg: &mut Agg,
    out: RunOutput,
    prop: &str,
    tier: Tier,
    base_seed: u64,
    run_index: i64,
    out_dir: &str,
    repo_rev: &str,
    max_violations: u64,
    sample_every: u64,
) {
    agg.evaluations += 1;
    agg.steps += out.steps;
    agg.draws += out.tape.len() as u64;
    for (k, v) in &out.counters {
        *agg.counters.entry(k).or_insert(0) += v;
    }
    if out.states.len() + out.transitions.len() > 0 {
        agg.states.extend(out.states.iter().copied());
        agg.transitions.extend(out.transitions.iter().copied());
    }
    if let Some(e) = &out.harness_error {
        if agg.harness_errors.len() < 5 {
            agg.harness_errors.push(format!("run {}: {}", run_index, e));
        }
        return;
    }
    if let Some((c, _m)) = &out.foreign {
        *agg.foreign.entry(c.to_string()).or_insert(0) += 1;
        return;
    }
    if out.nontrivial {
        agg.nontrivial += 1;
        agg.hashes.push(out.hash);
    }
    if let Some(s) = &out.sample {
        if agg.samples.len() < 3 && (agg.evaluations % sample_every == 1 || sample_every == 1) && out.nontrivial {
            agg.samples.push(s.clone());
        }
    }
    if let Some(v) = &out.violation {
        agg.violations += 1;
        // one replay per distinct (clause, signature) and worker, up to the limit
        if agg.replays_written >= max_violations || !agg.seen_sigs.insert((v.clause.to_string(), v.signature.clone())) {
            return;
        }
        let original_len = out.tape.len();
        // marker for the driver: if the process dies while shrinking (e.g. a candidate
        // overflows the stack), the violation of this run is still reported, unshrunk
        out_line(&format!(
            "K {}",
            J::obj()
                .set("run_index", J::i(run_index))
                .set("clause", J::s(v.clause))
                .set("signature", J::s(&v.signature))
                .set("message", J::s(&v.msg))
                .set("tape", J::Arr(out.tape.iter().map(|x| J::u(*x as u64)).collect()))
                .to_string()
        ));
        let (small, tried) = runner::shrink(prop, tier, out.tape.clone(), v.clause, &v.signature, 3000, 10.0);
        let (tape_final, jv) = match runner::replay_file_json(prop, tier, &small, base_seed, run_index, original_len, tried, repo_rev) {
            Some((j, v2)) if v2.clause == v.clause => (small, Some((j, v2))),
            _ => {
                // the shrunk tape does not reproduce in trace mode: fall back to the original
                let j = runner::replay_file_json(prop, tier, &out.tape, base_seed, run_index, original_len, tried, repo_rev);
                (out.tape.clone(), j)
            }
        };
        let _ = tape_final;
        out_line("k");
        match jv {
            Some((j, v2)) => {
                let _ = std::fs::create_dir_all(format!("{}/{}", out_dir, prop));
                let tag = if run_index >= 0 {
                    format!("{}", run_index)
                } else {
                    format!("enum{}", -run_index)
                };
                let path = format!("{}/{}/{}-{}-{}.json", out_dir, prop, prop, base_seed, tag);
                let mut text = String::new();
                pretty(&j, 0, &mut text);
                text.push('\n');
                if std::fs::write(&path, text).is_ok() {
                    agg.replays_written += 1;
                    let line = J::obj()
                        .set("clause", J::s(v2.clause))
                        .set("message", J::s(&v2.msg))
                        .set("signature", J::s(&v2.signature))
                        .set("replay", J::s(&path))
                        .set("run_index", J::i(run_index));
                    out_line(&format!("V {}", line.to_string()));
                } else {
                    agg.harness_errors.push(format!("cannot write replay file {}", path));
                }
            }
            None => {
                agg.harness_errors.push(format!(
                    "run {}: violation {} did not reproduce when replayed from its own tape (nondeterminism in the harness)",
                    run_index, v.clause
                ));
            }
        }
    }
}

fn pretty(j: &J, ind: usize, out: &mut String) {
    match j {
        J::Obj(m) => {
            out.push_str("{\n");
            let n = m.len();
            for (i, (k, v)) in m.iter().enumerate() {
                out.push_str(&" ".repeat(ind + 1));
                J::s(k).write(out);
                out.push_str(": ");
                if k == "trace" {
                    if let J::Arr(a) = v {
                        out.push_str("[\n");
                        for (ii, l) in a.iter().enumerate() {
                            out.push_str(&" ".repeat(ind + 2));
                            l.write(out);
                            if ii + 1 < a.len() {
                                out.push(',');
                            }
                            out.push('\n');
                        }
                        out.push_str(&" ".repeat(ind + 1));
                        out.push(']');
                    } else {
                        v.write(out);
                    }
                } else {
                    v.write(out);
                }
                if i + 1 < n {
                    out.push(',');
                }
                out.push('\n');
            }
            out.push_str(&" ".repeat(ind));
            out.push('}');
        }
        other => other.write(out),
    }
}

fn cmd_worker(a: &Args) -> i32 {
    let prop = a.map.get("prop").cloned().unwrap_or_default();
    let tier = parse_tier(a.map.get("tier").map(|s| s.as_str()).unwrap_or("quick"));
    let base_seed: u64 = a.map.get("seed").and_then(|s| s.parse().ok()).unwrap_or(1);
    let (ra, rb) = parse_range(a.map.get("runs").map(|s| s.as_str()).unwrap_or("0..0"));
    let (ea, eb) = parse_range(a.map.get("enum").map(|s| s.as_str()).unwrap_or("0..0"));
    let out_dir = a.map.get("out-dir").cloned().unwrap_or_else(|| "/verif/replays".to_string());
    let repo_rev = a.map.get("repo-rev").cloned().unwrap_or_default();
    let hash_file = a.map.get("hash-file").cloned();
    let max_violations: u64 = a.map.get("max-violations").and_then(|s| s.parse().ok()).unwrap_or(3);
    let recheck_every: u64 = a.map.get("recheck-every").and_then(|s| s.parse().ok()).unwrap_or(100);
    let sample_every: u64 = ((rb - ra) / 3).max(1);
    sim::HEARTBEAT_ON.store(true, std::sync::atomic::Ordering::Relaxed);

    let mut agg = Agg {
        evaluations: 0,
        nontrivial: 0,
        foreign: BTreeMap::new(),
        counters: BTreeMap::new(),
        states: BTreeSet::new(),
        transitions: BTreeSet::new(),
        steps: 0,
        samples: Vec::new(),
        hashes: Vec::new(),
        violations: 0,
        replays_written: 0,
        harness_errors: Vec::new(),
        determinism_checked: 0,
        determinism_mismatch: 0,
        draws: 0,
        seen_sigs: BTreeSet::new(),
    };

    let stop_early = a.map.contains_key("stop-after-violations");
    for run in ra..rb {
        if stop_early && agg.replays_written >= max_violations {
            // enough distinct failures recorded by this worker: the verdict is settled, the
            // remaining runs would only cost time (a failing tree can make runs very slow)
            break;
        }
        out_line(&format!("B {}", run));
        let seed = mix_seed(base_seed, &prop, run);
        let out = run_once(&prop, tier, Tape::generate(seed), false);
        if recheck_every > 0 && run % recheck_every == 0 {
            // determinism re-check: regenerate from the seed, and replay from the recorded tape
            let again = run_once(&prop, tier, Tape::generate(seed), false);
            let replayed = run_once(&prop, tier, Tape::replay(out.tape.clone()), false);
            agg.determinism_checked += 1;
            if again.hash != out.hash || replayed.hash != out.hash || again.tape != out.tape {
                agg.determinism_mismatch += 1;
                if agg.harness_errors.len() < 5 {
                    agg.harness_errors.push(format!(
                        "determinism mismatch at run {}: {:016x} / {:016x} / {:016x}",
                        run, out.hash, again.hash, replayed.hash
                    ));
                }
            }
        }
        process(&mut agg, out, &prop, tier, base_seed, run as i64, &out_dir, &repo_rev, max_violations, sample_every);
    }

    for group in ea..eb {
        out_line(&format!("E {}", group));
        let mut case_no: i64 = 0;
        enumerate::enum_group(&prop, tier, group, &mut |t: Vec<u32>| {
            let out = run_once(&prop, tier, Tape::replay(t), false);
            let c = out.counters.clone();
            case_no += 1;
            let idx = -((group as i64) * 1_000_000 + case_no);
            process(&mut agg, out, &prop, tier, base_seed, idx, &out_dir, &repo_rev, max_violations, 1);
            c
        });
    }

    if let Some(hf) = hash_file {
        let mut bytes = Vec::with_capacity(agg.hashes.len() * 8);
        for h in &agg.hashes {
            bytes.extend_from_slice(&h.to_le_bytes());
        }
        if std::fs::write(&hf, bytes).is_err() {
            agg.harness_errors.push(format!("cannot write hash file {}", hf));
        }
    }

    let mut counters = J::obj();
    for (k, v) in &agg.counters {
        counters.put(k, J::u(*v));
    }
    let mut foreign = J::obj();
    for (k, v) in &agg.foreign {
        foreign.put(k, J::u(*v));
    }
    let summary = J::obj()
        .set("evaluations", J::u(agg.evaluations))
        .set("nontrivial", J::u(agg.nontrivial))
        .set("violations", J::u(agg.violations))
        .set("steps", J::u(agg.steps))
        .set("draws", J::u(agg.draws))
        .set("counters", counters)
        .set("foreign", foreign)
        .set("states", J::Arr(agg.states.iter().map(|s| J::u(*s as u64)).collect()))
        .set(
            "transitions",
            J::Arr(agg.transitions.iter().map(|(a, b)| J::u(((*a as u64) << 32) | *b as u64)).collect()),
        )
        .set("samples", J::Arr(agg.samples.iter().map(|s| J::s(s)).collect()))
        .set("harness_errors", J::Arr(agg.harness_errors.iter().map(|s| J::s(s)).collect()))
        .set("determinism_checked", J::u(agg.determinism_checked))
        .set("determinism_mismatch", J::u(agg.determinism_mismatch));
    out_line(&format!("S {}", summary.to_string()));
    0
}

fn cmd_replay(a: &Args) -> i32 {
    let path = match a.pos.first() {
        Some(p) => p.clone(),
        None => {
            eprintln!("usage: rosssim replay <file>");
            return 2;
        }
    };
    let text = match std::fs::read_to_string(&path) {
        Ok(t) => t,
        Err(e) => {
            eprintln!("cannot read {}: {}", path, e);
            return 2;
        }
    };
    let j = match J::parse(&text) {
        Ok(j) => j,
        Err(e) => {
            eprintln!("cannot parse {}: {}", path, e);
            return 2;
        }
    };
    let prop = j.get("property").and_then(|v| v.as_str()).unwrap_or("").to_string();
    let clause = j.get("clause").and_then(|v| v.as_str()).unwrap_or("").to_string();
    let tier = parse_tier(j.get("tier").and_then(|v| v.as_str()).unwrap_or("quick"));
    let want_hash = j.get("event_log_hash").and_then(|v| v.as_str()).unwrap_or("").to_string();
    let tape: Vec<u32> = match j.get("tape") {
        Some(J::Arr(a)) => a.iter().map(|v| v.as_i64().unwrap_or(0) as u32).collect(),
        _ => {
            // no tape recorded (the worker died): regenerate from the seed
            let seed = j.get("base_seed").and_then(|v| v.as_i64()).unwrap_or(1) as u64;
            let run = j.get("run_index").and_then(|v| v.as_i64()).unwrap_or(0) as u64;
            out_line(&format!("B {}", run));
            let out = run_once(&prop, tier, Tape::generate(mix_seed(seed, &prop, run)), true);
            return report_replay(&out, &prop, &clause, "", a.map.contains_key("quiet"));
        }
    };
    let out = run_once(&prop, tier, Tape::replay(tape), true);
    report_replay(&out, &prop, &clause, &want_hash, a.map.contains_key("quiet"))
}

fn report_replay(out: &RunOutput, prop: &str, clause: &str, want_hash: &str, quiet: bool) -> i32 {
    if !quiet {
        for l in &out.trace {
            println!("{}", l);
        }
    }
    let got_hash = format!("{:016x}", out.hash);
    if let Some(e) = &out.harness_error {
        println!("REPLAY property={} harness_error={:?}", prop, e);
        return 2;
    }
    match &out.violation {
        Some(v) => {
            let same_clause = v.clause == clause || clause.is_empty();
            let same_hash = want_hash.is_empty() || want_hash == got_hash;
            println!(
                "REPLAY property={} clause={} reproduced={} same_clause={} event_log_hash={} hash_match={}",
                prop, v.clause, true, same_clause, got_hash, same_hash
            );
            println!("  {}", v.msg);
            if same_clause && same_hash {
                1
            } else if same_clause {
                4 // same violation, different event log: the system under test is not deterministic
            } else {
                3
            }
        }
        None => {
            println!(
                "REPLAY property={} reproduced=false event_log_hash={} (no violation on this tree{})",
                prop,
                got_hash,
                match &out.foreign {
                    Some((c, _)) => format!("; foreign guard {} tripped", c),
                    None => String::new(),
                }
            );
            0
        }
    }
}

fn cmd_hashes(a: &Args) -> i32 {
    let prop = a.map.get("prop").cloned().unwrap_or_default();
    let tier = parse_tier(a.map.get("tier").map(|s| s.as_str()).unwrap_or("quick"));
    let base_seed: u64 = a.map.get("seed").and_then(|s| s.parse().ok()).unwrap_or(1);
    let (ra, rb) = parse_range(a.map.get("runs").map(|s| s.as_str()).unwrap_or("0..0"));
    let stdout = std::io::stdout();
    let mut l = std::io::BufWriter::new(stdout.lock());
    for run in ra..rb {
        let out = run_once(&prop, tier, Tape::generate(mix_seed(base_seed, &prop, run)), false);
        let _ = writeln!(
            l,
            "{} {:016x} {} {}",
            run,
            out.hash,
            out.tape.len(),
            match (&out.violation, &out.foreign, &out.harness_error) {
                (Some(v), _, _) => v.clause.to_string(),
                (_, Some((c, _)), _) => format!("foreign:{}", c),
                (_, _, Some(_)) => "harness-error".to_string(),
                _ => "pass".to_string(),
            }
        );
    }
    0
}

fn cmd_uniq(a: &Args) -> i32 {
    let mut all: Vec<u64> = Vec::new();
    for f in &a.pos {
        if let Ok(bytes) = std::fs::read(f) {
            for c in bytes.chunks_exact(8) {
                let mut b = [0u8; 8];
                b.copy_from_slice(c);
                all.push(u64::from_le_bytes(b));
            }
        }
    }
    all.sort_unstable();
    all.dedup();
    println!("{}", all.len());
    0
}

fn main() {
    let argv: Vec<String> = std::env::args().collect();
    if argv.len() < 2 {
        eprintln!("usage: rosssim worker|replay|hashes|uniq|enum-groups ...");
        std::process::exit(2);
    }
    sim::install_panic_hook();
    if matches!(argv[1].as_str(), "worker" | "replay" | "hashes") {
        link_hostile::calibrate_all();
    }
    let a = parse_args(&argv[2..]);
    let code = match argv[1].as_str() {
        "worker" => cmd_worker(&a),
        "replay" => cmd_replay(&a),
        "hashes" => cmd_hashes(&a),
        "uniq" => cmd_uniq(&a),
        "enum-groups" => {
            let prop = a.map.get("prop").cloned().unwrap_or_default();
            let tier = parse_tier(a.map.get("tier").map(|s| s.as_str()).unwrap_or("quick"));
            println!("{}", enumerate::enum_groups(&prop, tier));
            0
        }
        other => {
            eprintln!("unknown command {}", other);
            2
        }
    };
    std::process::exit(code);
}
