//! Scenario plumbing shared by all checks.

use crate::alloc;
use crate::dev::{AnyLink, WireRef};
use crate::sim::{hash_packet, show_packet, sut, Crash, Sim, Violation};
use ross_protocol::interface::{Interface, InterfaceError};
use ross_protocol::packet::Packet;

#[derive(Clone, Copy, PartialEq, Eq, Debug)]
pub enum Tier {
    Quick,
    Thorough,
}

pub enum Outcome {
    Pass,
    Violation(Violation),
    /// A clause owned by another property failed first: the run is neither a
    /// pass nor a violation of the property being checked (DESIGN §3.4).
    Foreign(&'static str, String),
}

/// Attribution guard: a failed clause is a violation only for the property
/// that owns it.
pub fn fail(prop: &str, clause: &'static str, msg: String, signature: String) -> Outcome {
    if clause.starts_with(prop) && clause.as_bytes().get(prop.len()) == Some(&b'.') {
        Outcome::Violation(Violation {
            clause,
            msg,
            signature,
        })
    } else {
        Outcome::Foreign(clause, msg)
    }
}

pub const EV_POLL: u8 = 20;
pub const EV_SEND: u8 = 21;
pub const EV_APP: u8 = 22;

pub fn show_iface_err(e: &InterfaceError) -> String {
    format!("{:?}", e)
}

pub fn show_poll(r: &Result<Result<Packet, InterfaceError>, Crash>) -> String {
    match r {
        Ok(Ok(p)) => format!("Ok({})", show_packet(p)),
        Ok(Err(e)) => format!("Err({})", show_iface_err(e)),
        Err(Crash::Blocked) => "BLOCKED (never returns)".to_string(),
        Err(Crash::Panic(m)) => format!("PANIC: {}", m),
    }
}

pub fn poll_class(r: &Result<Result<Packet, InterfaceError>, Crash>) -> u64 {
    match r {
        Ok(Ok(p)) => 0x100 ^ hash_packet(p),
        Ok(Err(InterfaceError::NoPacketReceived)) => 1,
        Ok(Err(e)) => crate::sim::hash_bytes(2, show_iface_err(e).as_bytes()),
        Err(Crash::Blocked) => 3,
        Err(Crash::Panic(_)) => 4,
    }
}

pub struct PollOut {
    pub res: Result<Result<Packet, InterfaceError>, Crash>,
    pub cursor_before: usize,
    pub cursor_after: usize,
    pub frames_before: usize,
    pub frames_after: usize,
    pub live_before: isize,
    pub peak: isize,
    pub max_single: isize,
}

/// One receiver poll through the real `try_get_packet`.
pub fn poll(sim: &Sim, who: &str, rx: &mut AnyLink, wire: &WireRef) -> PollOut {
    sim.idle_gap();
    let (cursor_before, frames_before) = {
        let mut w = wire.borrow_mut();
        w.begin_poll();
        (w.cursor, w.frames_taken)
    };
    let live_before = alloc::sut_live();
    alloc::mark();
    let res = sut(|| rx.try_get_packet());
    wire.borrow_mut().end_poll();
    let peak = alloc::sut_peak();
    let max_single = alloc::sut_max_single();
    let (cursor_after, frames_after) = {
        let w = wire.borrow();
        (w.cursor, w.frames_taken)
    };
    sim.event(EV_POLL, poll_class(&res), cursor_after as u64, || {
        format!(
            "{}.try_get_packet -> {}   [units taken {}..{}]",
            who,
            show_poll(&res),
            cursor_before,
            cursor_after
        )
    });
    PollOut {
        res,
        cursor_before,
        cursor_after,
        frames_before,
        frames_after,
        live_before,
        peak,
        max_single,
    }
}

/// One send through the real `try_send_packet` of a link object whose receive side is `rxwire`
/// (a call into the object is in progress as far as its devices are concerned).
pub fn send_on(sim: &Sim, who: &str, tx: &mut AnyLink, p: &Packet, rxwire: &WireRef) -> Result<Result<(), InterfaceError>, Crash> {
    rxwire.borrow_mut().in_poll = true;
    let r = send(sim, who, tx, p);
    rxwire.borrow_mut().in_poll = false;
    r
}

/// One send through the real `try_send_packet`.
pub fn send(sim: &Sim, who: &str, tx: &mut AnyLink, p: &Packet) -> Result<Result<(), InterfaceError>, Crash> {
    sim.idle_gap();
    sim.event(EV_SEND, hash_packet(p), 0, || {
        format!("{}.try_send_packet({})", who, show_packet(p))
    });
    let res = sut(|| tx.try_send_packet(p));
    sim.event(
        EV_SEND,
        match &res {
            Ok(Ok(())) => 1,
            Ok(Err(_)) => 2,
            Err(Crash::Blocked) => 3,
            Err(Crash::Panic(_)) => 4,
        },
        1,
        || {
            format!(
                "{}.try_send_packet -> {}",
                who,
                match &res {
                    Ok(Ok(())) => "Ok".to_string(),
                    Ok(Err(e)) => format!("Err({})", show_iface_err(e)),
                    Err(Crash::Blocked) => "BLOCKED (never returns)".to_string(),
                    Err(Crash::Panic(m)) => format!("PANIC: {}", m),
                }
            )
        },
    );
    res
}

pub fn bucket(n: usize) -> u32 {
    match n {
        0 => 0,
        1 => 1,
        2..=3 => 2,
        4..=15 => 3,
        16..=255 => 4,
        256..=4095 => 5,
        _ => 6,
    }
}
