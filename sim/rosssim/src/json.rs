//! Minimal JSON value, writer and parser (no external crates are needed for
//! the few files the simulator reads and writes).

use std::collections::BTreeMap;

#[derive(Clone, Debug, PartialEq)]
pub enum J {
    Null,
    Bool(bool),
    Num(f64),
    Int(i64),
    Str(String),
    Arr(Vec<J>),
    Obj(BTreeMap<String, J>),
}

impl J {
    pub fn obj() -> J {
        J::Obj(BTreeMap::new())
    }
    pub fn set(mut self, k: &str, v: J) -> J {
        if let J::Obj(ref mut m) = self {
            m.insert(k.to_string(), v);
        }
        self
    }
    pub fn put(&mut self, k: &str, v: J) {
        if let J::Obj(ref mut m) = self {
            m.insert(k.to_string(), v);
        }
    }
    pub fn get(&self, k: &str) -> Option<&J> {
        match self {
            J::Obj(m) => m.get(k),
            _ => None,
        }
    }
    pub fn as_str(&self) -> Option<&str> {
        match self {
            J::Str(s) => Some(s),
            _ => None,
        }
    }
    pub fn as_i64(&self) -> Option<i64> {
        match self {
            J::Int(i) => Some(*i),
            J::Num(f) => Some(*f as i64),
            _ => None,
        }
    }
    pub fn as_arr(&self) -> Option<&Vec<J>> {
        match self {
            J::Arr(a) => Some(a),
            _ => None,
        }
    }
    pub fn s(v: &str) -> J {
        J::Str(v.to_string())
    }
    pub fn i(v: i64) -> J {
        J::Int(v)
    }
    pub fn u(v: u64) -> J {
        J::Int(v as i64)
    }

    pub fn write(&self, out: &mut String) {
        match self {
            J::Null => out.push_str("null"),
            J::Bool(b) => out.push_str(if *b { "true" } else { "false" }),
            J::Num(f) => out.push_str(&format!("{}", f)),
            J::Int(i) => out.push_str(&format!("{}", i)),
            J::Str(s) => write_str(s, out),
            J::Arr(a) => {
                out.push('[');
                for (i, v) in a.iter().enumerate() {
                    if i > 0 {
                        out.push(',');
                    }
                    v.write(out);
                }
                out.push(']');
            }
            J::Obj(m) => {
                out.push('{');
                for (i, (k, v)) in m.iter().enumerate() {
                    if i > 0 {
                        out.push(',');
                    }
                    write_str(k, out);
                    out.push(':');
                    v.write(out);
                }
                out.push('}');
            }
        }
    }

    pub fn to_string(&self) -> String {
        let mut s = String::new();
        self.write(&mut s);
        s
    }

    pub fn parse(text: &str) -> Result<J, String> {
        let b = text.as_bytes();
        let mut p = 0usize;
        let v = parse_value(b, &mut p)?;
        skip_ws(b, &mut p);
        if p != b.len() {
            return Err(format!("trailing data at {}", p));
        }
        Ok(v)
    }
}

fn write_str(s: &str, out: &mut String) {
    out.push('"');
    for c in s.chars() {
        match c {
            '"' => out.push_str("\\\""),
            '\\' => out.push_str("\\\\"),
            '\n' => out.push_str("\\n"),
            '\r' => out.push_str("\\r"),
            '\t' => out.push_str("\\t"),
            c if (c as u32) < 0x20 => out.push_str(&format!("\\u{:04x}", c as u32)),
            c => out.push(c),
        }
    }
    out.push('"');
}

fn skip_ws(b: &[u8], p: &mut usize) {
    while *p < b.len() && (b[*p] == b' ' || b[*p] == b'\n' || b[*p] == b'\r' || b[*p] == b'\t') {
        *p += 1;
    }
}

fn parse_value(b: &[u8], p: &mut usize) -> Result<J, String> {
    skip_ws(b, p);
    if *p >= b.len() {
        return Err("unexpected end".into());
    }
    match b[*p] {
        b'{' => {
            *p += 1;
            let mut m = BTreeMap::new();
            skip_ws(b, p);
            if *p < b.len() && b[*p] == b'}' {
                *p += 1;
                return Ok(J::Obj(m));
            }
            loop {
                skip_ws(b, p);
                let k = match parse_value(b, p)? {
                    J::Str(s) => s,
                    _ => return Err("object key must be a string".into()),
                };
                skip_ws(b, p);
                if *p >= b.len() || b[*p] != b':' {
                    return Err(format!("expected ':' at {}", p));
                }
                *p += 1;
                let v = parse_value(b, p)?;
                m.insert(k, v);
                skip_ws(b, p);
                if *p < b.len() && b[*p] == b',' {
                    *p += 1;
                    continue;
                }
                if *p < b.len() && b[*p] == b'}' {
                    *p += 1;
                    return Ok(J::Obj(m));
                }
                return Err(format!("expected ',' or '}}' at {}", p));
            }
        }
        b'[' => {
            *p += 1;
            let mut a = Vec::new();
            skip_ws(b, p);
            if *p < b.len() && b[*p] == b']' {
                *p += 1;
                return Ok(J::Arr(a));
            }
            loop {
                a.push(parse_value(b, p)?);
                skip_ws(b, p);
                if *p < b.len() && b[*p] == b',' {
                    *p += 1;
                    continue;
                }
                if *p < b.len() && b[*p] == b']' {
                    *p += 1;
                    return Ok(J::Arr(a));
                }
                return Err(format!("expected ',' or ']' at {}", p));
            }
        }
        b'"' => {
            *p += 1;
            let mut s = String::new();
            let mut raw: Vec<u8> = Vec::new();
            while *p < b.len() {
                let c = b[*p];
                *p += 1;
                match c {
                    b'"' => {
                        s.push_str(&String::from_utf8_lossy(&raw));
                        return Ok(J::Str(s));
                    }
                    b'\\' => {
                        if *p >= b.len() {
                            break;
                        }
                        let e = b[*p];
                        *p += 1;
                        match e {
                            b'n' => raw.push(b'\n'),
                            b'r' => raw.push(b'\r'),
                            b't' => raw.push(b'\t'),
                            b'b' => raw.push(8),
                            b'f' => raw.push(12),
                            b'u' => {
                                if *p + 4 > b.len() {
                                    return Err("bad \\u escape".into());
                                }
                                let hx = std::str::from_utf8(&b[*p..*p + 4]).map_err(|e| e.to_string())?;
                                let cp = u32::from_str_radix(hx, 16).map_err(|e| e.to_string())?;
                                *p += 4;
                                let ch = char::from_u32(cp).unwrap_or('?');
                                let mut buf = [0u8; 4];
                                raw.extend_from_slice(ch.encode_utf8(&mut buf).as_bytes());
                            }
                            other => raw.push(other),
                        }
                    }
                    other => raw.push(other),
                }
            }
            Err("unterminated string".into())
        }
        b't' if b[*p..].starts_with(b"true") => {
            *p += 4;
            Ok(J::Bool(true))
        }
        b'f' if b[*p..].starts_with(b"false") => {
            *p += 5;
            Ok(J::Bool(false))
        }
        b'n' if b[*p..].starts_with(b"null") => {
            *p += 4;
            Ok(J::Null)
        }
        _ => {
            let start = *p;
            while *p < b.len() && (b[*p] == b'-' || b[*p] == b'+' || b[*p] == b'.' || b[*p] == b'e' || b[*p] == b'E' || b[*p].is_ascii_digit()) {
                *p += 1;
            }
            let t = std::str::from_utf8(&b[start..*p]).map_err(|e| e.to_string())?;
            if t.is_empty() {
                return Err(format!("unexpected character at {}", start));
            }
            if let Ok(i) = t.parse::<i64>() {
                Ok(J::Int(i))
            } else {
                t.parse::<f64>().map(J::Num).map_err(|e| e.to_string())
            }
        }
    }
}
