//! Deterministic enumerations expressed as explicit tapes: the C13 single
//! would-block sweep and the C14 single-fault enumeration. A group is one
//! (link, packet) combination; the cases of a group are all fault positions.

use crate::link_clean::{MODE_SWEEP, SWEEP_BURSTS, SWEEP_PAIRS};
use crate::scenario::Tier;
use std::collections::BTreeMap;

pub type RunTape<'a> = &'a mut dyn FnMut(Vec<u32>) -> BTreeMap<&'static str, u64>;

pub fn enum_groups(prop: &str, _tier: Tier) -> u64 {
    match prop {
        "C13" => 3 * SWEEP_PAIRS.len() as u64,
        "C14" => 3 * crate::send::enum_sizes(_tier).len() as u64,
        _ => 0,
    }
}

pub fn enum_group(prop: &str, tier: Tier, group: u64, run: RunTape) {
    match prop {
        "C13" => c13_sweep(tier, group, run),
        "C14" => c14_faults(tier, group, run),
        _ => {}
    }
}

/// tape layout (link_clean.rs): link, mode, pair, send, send, position, burst
fn c13_sweep(_tier: Tier, group: u64, run: RunTape) {
    let link = (group % 3) as u32;
    let pair = (group / 3) as u32;
    let probe = run(vec![link, MODE_SWEEP, pair, 0, 0, 0, 0]);
    let units = probe.get("sweep_units").copied().unwrap_or(0) as u32;
    for pos in 0..units {
        for b in 0..SWEEP_BURSTS.len() as u32 {
            if pos == 0 && b == 0 {
                continue;
            }
            run(vec![link, MODE_SWEEP, pair, 0, 0, pos, b]);
        }
    }
}

/// tape layout (send.rs): placed-mode flag, link, packet, fault kind, position, argument
fn c14_faults(tier: Tier, group: u64, run: RunTape) {
    let link = (group % 3) as u32;
    let pkt = (group / 3) as u32;
    let dry = run(vec![1, link, pkt, 0, 4095, 0]);
    let calls = dry.get("tx_calls").copied().unwrap_or(0) as u32;
    let flushes = dry.get("flush_calls").copied().unwrap_or(0) as u32;
    match link {
        // usart: a would-block burst before every byte
        0 => {
            for pos in 0..calls {
                for b in 0..3 {
                    run(vec![1, link, pkt, 0, pos, b]);
                }
            }
        }
        // can: a would-block burst before / a displaced-frame report at every frame
        1 => {
            for pos in 0..calls {
                for b in 0..3 {
                    run(vec![1, link, pkt, 0, pos, b]);
                }
                run(vec![1, link, pkt, 1, pos, 0]);
            }
        }
        // serial port: hard error (3 kinds), every short-write size, Interrupted at every
        // write call; an error at every flush call
        _ => {
            for pos in 0..calls {
                for k in 0..3 {
                    run(vec![1, link, pkt, 0, pos, k]);
                }
                for size in 0..14 {
                    run(vec![1, link, pkt, 1, pos, size]);
                }
                run(vec![1, link, pkt, 2, pos, 0]);
                // the write accepts nothing (`Ok(0)`)
                run(vec![1, link, pkt, 5, pos, 0]);
            }
            for pos in 0..flushes {
                for k in 0..3 {
                    run(vec![1, link, pkt, 3, pos, k]);
                }
                // `Interrupted` 1, 2, 3, 4, 7 times in a row at this flush call
                for k in 0..5 {
                    run(vec![1, link, pkt, 4, pos, k]);
                }
            }
        }
    }
}
