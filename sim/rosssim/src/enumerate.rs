//! Deterministic enumerations expressed as explicit tapes: the C13 single
//! would-block sweep and the C14 single-fault enumeration. A group is one
//! (link, packet) combination; the cases of a group are all fault positions.

use crate::link_clean::{MODE_SWEEP, SWEEP_BURSTS, SWEEP_PAIRS};
use crate::scenario::Tier;
use std::collections::BTreeMap;

pub type RunTape<'a> = &'a mut dyn FnMut(Vec<u32>) -> BTreeMap<&'static str, u64>;

pub fn enum_groups(prop: &str, _tier: Tier) -> u64 {
    match prop {
        "C13" => 3 * SWEEP_PAIRS.len() as u64,
        _ => 0,
    }
}

pub fn enum_group(prop: &str, tier: Tier, group: u64, run: RunTape) {
    match prop {
        "C13" => c13_sweep(tier, group, run),
        _ => {}
    }
}

/// tape layout (link_clean.rs): link, mode, pair, send, send, position, burst
fn c13_sweep(_tier: Tier, group: u64, run: RunTape) {
    let link = (group % 3) as u32;
    let pair = (group / 3) as u32;
    let probe = run(vec![link, MODE_SWEEP, pair, 0, 0, 0, 0]);
    let units = probe.get("sweep_units").copied().unwrap_or(0) as u32;
    for pos in 0..units {
        for b in 0..SWEEP_BURSTS.len() as u32 {
            if pos == 0 && b == 0 {
                continue;
            }
            run(vec![link, MODE_SWEEP, pair, 0, 0, pos, b]);
        }
    }
}
