//! Executes one run from a tape, shrinks failing tapes, writes replay files.

use crate::json::J;
use crate::scenario::{Outcome, Tier};
use crate::sim::{Sim, Violation};
use crate::tape::Tape;
use std::collections::{BTreeMap, BTreeSet};
use std::panic::{catch_unwind, AssertUnwindSafe};
use std::time::Instant;

pub struct RunOutput {
    pub violation: Option<Violation>,
    pub foreign: Option<(&'static str, String)>,
    pub harness_error: Option<String>,
    pub hash: u64,
    pub steps: u64,
    pub nontrivial: bool,
    pub counters: BTreeMap<&'static str, u64>,
    pub states: BTreeSet<u32>,
    pub transitions: BTreeSet<(u32, u32)>,
    pub sample: Option<String>,
    pub tape: Vec<u32>,
    pub trace: Vec<String>,
}

pub fn scenario_name(prop: &str) -> &'static str {
    match prop {
        "C13" => "S-LINK(clean)",
        "C06" => "S-LINK(hostile)",
        "C19" => "S-LINK(memory)",
        "C14" => "S-SEND",
        "C07" => "S-BUILDER",
        "C15" | "C16" | "C17" | "C18" => "S-NODE",
        "C01" => "S-E2E",
        _ => "?",
    }
}

pub const PROPS: [&str; 10] = ["C01", "C06", "C07", "C13", "C14", "C15", "C16", "C17", "C18", "C19"];

fn dispatch(sim: &Sim, prop: &str, tier: Tier) -> Outcome {
    match prop {
        "C13" => crate::link_clean::run(sim, prop, tier),
        "C06" => crate::link_hostile::run_c06(sim, prop, tier),
        "C19" => crate::link_hostile::run_c19(sim, prop, tier),
        "C14" => crate::send::run(sim, prop, tier),
        "C07" => crate::builder::run(sim, prop, tier),
        "C01" => crate::e2e::run(sim, prop, tier),
        "C15" | "C16" | "C17" | "C18" => crate::node::run(sim, prop, tier),
        _ => panic!("unknown property {}", prop),
    }
}

pub fn run_once(prop: &str, tier: Tier, tape: Tape, trace: bool) -> RunOutput {
    let sim = Sim::new(tape, trace);
    crate::sim::reset_call_budget();
    let r = catch_unwind(AssertUnwindSafe(|| dispatch(&sim, prop, tier)));
    crate::alloc::set_domain(crate::alloc::SIM);
    let (clock_reads, sleeps) = crate::simclock::take_counts();
    if clock_reads > 0 {
        sim.count_n("clock_reads_by_the_system_under_test", clock_reads);
    }
    if sleeps > 0 {
        sim.count_n("sleeps_by_the_system_under_test", sleeps);
    }
    let mut out = {
        let mut s = sim.0.borrow_mut();
        RunOutput {
            violation: None,
            foreign: None,
            harness_error: None,
            hash: s.hash ^ s.hash_unordered.rotate_left(17),
            steps: s.steps,
            nontrivial: s.nontrivial,
            counters: std::mem::take(&mut s.counters),
            states: std::mem::take(&mut s.states),
            transitions: std::mem::take(&mut s.transitions),
            sample: s.sample.take(),
            tape: std::mem::take(&mut s.tape.rec),
            trace: std::mem::take(&mut s.trace),
        }
    };
    match r {
        Ok(Outcome::Pass) => {}
        Ok(Outcome::Violation(v)) => out.violation = Some(v),
        Ok(Outcome::Foreign(c, m)) => out.foreign = Some((c, m)),
        Err(payload) => {
            let msg = crate::sim::LAST_PANIC
                .with(|p| p.borrow_mut().take())
                .unwrap_or_else(|| "harness panic".to_string());
            drop(payload);
            out.harness_error = Some(msg);
        }
    }
    out
}

/// Shrinks a failing tape: truncate, delete blocks, zero blocks, lower values.
/// A candidate is kept only if the *same clause* still fails with the same
/// signature (so that shrinking cannot slip from one defect into another).
pub fn shrink(prop: &str, tier: Tier, tape: Vec<u32>, clause: &str, signature: &str, budget: usize, secs: f64) -> (Vec<u32>, usize) {
    let start = Instant::now();
    let mut tried = 0usize;
    let mut best = tape;
    let mut fails = |cand: &Vec<u32>, tried: &mut usize| -> bool {
        *tried += 1;
        if std::env::var("ROSSSIM_DEBUG_SHRINK").is_ok() {
            eprintln!("cand #{} len {} {:?}", *tried, cand.len(), &cand[..cand.len().min(60)]);
        }
        let out = run_once(prop, tier, Tape::replay(cand.clone()), false);
        matches!(&out.violation, Some(v) if v.clause == clause && v.signature == signature)
    };
    let over = |tried: usize| tried >= budget || start.elapsed().as_secs_f64() > secs;

    // strip trailing draws the run never used / zeros
    loop {
        let mut progress = false;

        // 1. truncate by binary search on the length
        let mut lo = 0usize;
        let mut hi = best.len();
        while lo < hi && !over(tried) {
            let mid = (lo + hi) / 2;
            let cand: Vec<u32> = best[..mid].to_vec();
            if fails(&cand, &mut tried) {
                hi = mid;
            } else {
                lo = mid + 1;
            }
        }
        if hi < best.len() {
            let cand: Vec<u32> = best[..hi].to_vec();
            if fails(&cand, &mut tried) {
                best = cand;
                progress = true;
            }
        }

        // 2. delete blocks
        for &bs in &[8usize, 4, 2, 1] {
            let mut i = 0;
            while i + bs <= best.len() && !over(tried) {
                let mut cand = best.clone();
                cand.drain(i..i + bs);
                if fails(&cand, &mut tried) {
                    best = cand;
                    progress = true;
                } else {
                    i += 1;
                }
            }
        }

        // 3. zero blocks
        for &bs in &[8usize, 4, 2, 1] {
            let mut i = 0;
            while i + bs <= best.len() && !over(tried) {
                if best[i..i + bs].iter().all(|v| *v == 0) {
                    i += bs;
                    continue;
                }
                let mut cand = best.clone();
                for v in cand[i..i + bs].iter_mut() {
                    *v = 0;
                }
                if fails(&cand, &mut tried) {
                    best = cand;
                    progress = true;
                }
                i += bs;
            }
        }

        // 4. lower individual values by binary search
        for i in 0..best.len() {
            if over(tried) {
                break;
            }
            if best[i] == 0 {
                continue;
            }
            let mut lo = 0u32;
            let mut hi = best[i];
            while lo < hi && !over(tried) {
                let mid = lo + (hi - lo) / 2;
                let mut cand = best.clone();
                cand[i] = mid;
                if fails(&cand, &mut tried) {
                    hi = mid;
                } else {
                    lo = mid + 1;
                }
            }
            if hi < best[i] {
                let mut cand = best.clone();
                cand[i] = hi;
                if fails(&cand, &mut tried) {
                    best = cand;
                    progress = true;
                }
            }
        }

        if !progress || over(tried) {
            break;
        }
    }
    while best.last() == Some(&0) {
        best.pop();
    }
    (best, tried)
}

pub fn tier_name(t: Tier) -> &'static str {
    match t {
        Tier::Quick => "quick",
        Tier::Thorough => "thorough",
    }
}

/// Builds the replay file for a (minimised) failing tape by re-running it with tracing.
pub fn replay_file_json(
    prop: &str,
    tier: Tier,
    tape: &[u32],
    base_seed: u64,
    run_index: i64,
    original_len: usize,
    shrink_candidates: usize,
    repo_rev: &str,
) -> Option<(J, Violation)> {
    let out = run_once(prop, tier, Tape::replay(tape.to_vec()), true);
    let v = out.violation.clone()?;
    let j = J::obj()
        .set("property", J::s(prop))
        .set("clause", J::s(v.clause))
        .set("message", J::s(&v.msg))
        .set("signature", J::s(&v.signature))
        .set("scenario", J::s(scenario_name(prop)))
        .set("base_seed", J::u(base_seed))
        .set("run_index", J::i(run_index))
        .set("tier", J::s(tier_name(tier)))
        .set("tape", J::Arr(tape.iter().map(|v| J::u(*v as u64)).collect()))
        .set("trace", J::Arr(out.trace.iter().map(|l| J::s(l)).collect()))
        .set("event_log_hash", J::s(&format!("{:016x}", out.hash)))
        .set("original_tape_len", J::u(original_len as u64))
        .set("shrink_candidates", J::u(shrink_candidates as u64))
        .set("repo_rev", J::s(repo_rev));
    Some((j, v))
}
