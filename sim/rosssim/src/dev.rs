//! Simulated devices and the wire between them.
//!
//! One `Wire` per direction. The transmitting device appends units (bytes on
//! USART / serial port, CAN frames on CAN); the receiving device takes them in
//! FIFO order. *When* a unit "has arrived" is decided from the tape at every
//! single device read, which is how the simulator covers every interleaving of
//! data arrival with polling (DESIGN §3.3).

use crate::alloc::SimDomain;
use crate::sim::{BlockedSentinel, Sim, STARVE_BUDGET};
use bxcan::Frame as BxFrame;
use std::cell::RefCell;
use std::convert::Infallible;
use std::io;
use std::rc::Rc;
use std::time::Duration;

#[derive(Clone, Copy, PartialEq, Eq, Debug)]
pub enum LinkKind {
    Can,
    Usart,
    Serial,
}

impl LinkKind {
    pub fn name(self) -> &'static str {
        match self {
            LinkKind::Can => "can",
            LinkKind::Usart => "usart",
            LinkKind::Serial => "serial",
        }
    }
    pub fn from_index(i: u32) -> LinkKind {
        match i % 3 {
            0 => LinkKind::Usart,
            1 => LinkKind::Can,
            _ => LinkKind::Serial,
        }
    }
    pub fn is_bytes(self) -> bool {
        !matches!(self, LinkKind::Can)
    }
}

#[derive(Clone, Debug)]
pub enum CanUnit {
    Frame(BxFrame),
    /// The controller reports a receive FIFO overrun (`Err(Other(()))`).
    Overrun,
}

/// Reference link framing of the byte links, as the properties define it:
/// a zero delimiter, a length byte L, then L body bytes; non-zero bytes
/// between frames are line noise.
#[derive(Clone, Copy, PartialEq, Eq, Debug)]
pub enum Parse {
    Idle,
    Len,
    Body(u8),
}

/// Receive-side schedule policy of a wire (drawn per run: swarm configuration).
#[derive(Clone, Copy, Debug)]
pub struct RxPolicy {
    /// percent chance of "no data yet" when the next unit starts a link frame
    pub wb_boundary: u32,
    /// percent chance of "no data yet" inside a link frame (USART only)
    pub wb_inside: u32,
    /// bound on consecutive "no data yet" answers while data is in flight
    pub wb_cap: u32,
    /// at most one link frame is delivered per poll
    pub trickle: bool,
    /// serial port: percent chance that a read returns fewer bytes than asked
    pub short_read: u32,
    /// serial port: percent chance of an `Interrupted` error before a read
    pub interrupted: u32,
    /// USART / serial port: per-mille chance that a read fails hard (framing / parity /
    /// device error) without consuming anything. Only injected where every correct
    /// receiver stays aligned with the link framing: between frames, or inside a frame
    /// whose remaining body contains no zero byte (the rest is then skipped as noise).
    pub hard_err_pm: u32,
    /// serial port: percent of the "no data yet" answers given as `Ok(0)` instead of
    /// `Err(TimedOut)` (some ports and pseudo-terminals report an idle line that way)
    pub idle_ok0: u32,
}

impl RxPolicy {
    pub fn eager() -> Self {
        RxPolicy {
            wb_boundary: 0,
            wb_inside: 0,
            wb_cap: 0,
            trickle: false,
            short_read: 0,
            interrupted: 0,
            hard_err_pm: 0,
            idle_ok0: 0,
        }
    }
}

#[derive(Clone, Copy, Debug, PartialEq, Eq)]
pub enum TxFault {
    None,
    /// serial: hard error of this kind index at this call
    HardError(u8),
    /// serial: accept only this many bytes (>=1) of the write
    Short(u32),
    /// serial: `Interrupted`
    Interrupted,
    /// serial: the write accepts nothing and says so (`Ok(0)`)
    Zero,
    /// usart / can: this many would-blocks before the unit is accepted
    WouldBlock(u32),
    /// can: accept the frame and report a displaced pending frame
    Displaced,
    /// serial: error at this flush call
    FlushError(u8),
    /// serial: `Interrupted` at this flush call and at the following ones, this many in a row
    FlushInterrupted(u32),
}

/// Transmit-side reaction policy (C14). Random rates plus an optional single
/// explicitly placed fault (used by the single-fault enumeration).
#[derive(Clone, Debug)]
pub struct TxPolicy {
    pub wb: u32,
    pub wb_burst: u32,
    pub short: u32,
    pub interrupted: u32,
    /// serial: percent chance that a write is answered `Ok(0)` (nothing accepted; at most
    /// three times in a row)
    pub zero: u32,
    pub hard: u32,
    pub flush_err: u32,
    /// serial: percent chance that a flush call is answered `Interrupted` (retryable), and the
    /// bound on such answers in a row (a sender that keeps retrying gets through)
    pub flush_intr: u32,
    pub flush_intr_cap: u32,
    pub displaced: u32,
    /// (index of the write/transmit call, or of the flush call for FlushError, fault)
    pub placed: Option<(u32, TxFault)>,
}

impl TxPolicy {
    pub fn benign() -> Self {
        TxPolicy {
            wb: 0,
            wb_burst: 0,
            short: 0,
            interrupted: 0,
            zero: 0,
            hard: 0,
            flush_err: 0,
            flush_intr: 0,
            flush_intr_cap: 0,
            displaced: 0,
            placed: None,
        }
    }
}

pub struct Wire {
    pub kind: LinkKind,
    pub bytes: Vec<u8>,
    pub cframes: Vec<CanUnit>,
    /// number of units the receiving device has taken
    pub cursor: usize,
    pub parse: Parse,
    /// whole link frames (or CAN units) the receiver has taken so far
    pub frames_taken: usize,
    pub policy: RxPolicy,
    /// schedule disabled: everything in flight is available at once
    pub drain: bool,
    consec_wb: u32,
    consec_intr: u32,
    consec_hard: u32,
    pub hard_errors: u64,
    starve: u32,
    frames_this_poll: u32,
    /// reads answered "not yet" inside a link frame (reach probe)
    pub wb_inside_seen: u64,
    /// sweep: a would-block burst of the given length at exactly this unit position
    pub forced_wb: Option<(usize, u32)>,
    /// serial port: what the port object reports about flow control (0 none, 1 software,
    /// 2 hardware) and the percent chance that a modem status line reads "low" when asked
    /// (CTS, DSR, carrier detect); none of it changes what the port accepts or delivers
    pub flow_control: u8,
    pub line_low_pct: u32,
    /// serial port: what the sender writes stays in its output queue until a `flush`
    /// succeeds; the receiving side sees only flushed bytes (an OS-buffered port)
    pub hold_until_flush: bool,
    pub flushed_len: usize,
    /// nothing new arrives for the moment: every read is answered "no data yet" while this is
    /// set (the harness sets it around a single call that starts at a frame boundary for a
    /// blocking receiver, anywhere for a resumable one)
    pub freeze: bool,
    /// a call into the link object that receives from this wire is in progress - a poll, a
    /// tick, a send, an exchange (set by the harness around the call; constructing the object
    /// is not such a call)
    pub in_poll: bool,
    /// bytes discarded by `clear(Input)` calls made during polls
    pub cleared_units: u64,
    // --- transmit side ---
    pub tx: TxPolicy,
    pub tx_calls: u32,
    pub flush_calls: u32,
    tx_wb_left: Option<u32>,
    flush_wb_left: Option<u32>,
    consec_flush_intr: u32,
    consec_zero: u32,
    pub tx_zero: u32,
    /// bytes written since the last successful flush (what `bytes_to_write` reports)
    pub unflushed: u64,
    pub tx_hard_errors: u32,
    pub tx_flush_errors: u32,
    pub tx_flush_ok_after_last_write: bool,
    pub tx_displaced: u32,
    pub tx_interrupted: u32,
    pub tx_short: u32,
    pub tx_wb_total: u64,
}

pub type WireRef = Rc<RefCell<Wire>>;

impl Wire {
    pub fn new(kind: LinkKind) -> WireRef {
        Rc::new(RefCell::new(Wire {
            kind,
            bytes: Vec::new(),
            cframes: Vec::new(),
            cursor: 0,
            parse: Parse::Idle,
            frames_taken: 0,
            policy: RxPolicy::eager(),
            drain: false,
            consec_wb: 0,
            consec_intr: 0,
            consec_hard: 0,
            hard_errors: 0,
            starve: 0,
            frames_this_poll: 0,
            wb_inside_seen: 0,
            forced_wb: None,
            flow_control: 0,
            line_low_pct: 0,
            hold_until_flush: false,
            flushed_len: 0,
            freeze: false,
            in_poll: false,
            cleared_units: 0,
            tx: TxPolicy::benign(),
            tx_calls: 0,
            flush_calls: 0,
            tx_wb_left: None,
            flush_wb_left: None,
            consec_flush_intr: 0,
            consec_zero: 0,
            tx_zero: 0,
            unflushed: 0,
            tx_hard_errors: 0,
            tx_flush_errors: 0,
            tx_flush_ok_after_last_write: true,
            tx_displaced: 0,
            tx_interrupted: 0,
            tx_short: 0,
            tx_wb_total: 0,
        }))
    }

    pub fn len(&self) -> usize {
        if self.kind.is_bytes() {
            self.bytes.len()
        } else {
            self.cframes.len()
        }
    }

    pub fn in_flight(&self) -> usize {
        let visible = if self.hold_until_flush { self.flushed_len.min(self.len()) } else { self.len() };
        visible.saturating_sub(self.cursor)
    }

    pub fn at_boundary(&self) -> bool {
        self.parse == Parse::Idle
    }

    /// Called by the harness before each receiver poll.
    pub fn begin_poll(&mut self) {
        self.starve = 0;
        self.frames_this_poll = 0;
        self.in_poll = true;
    }

    /// Called by the harness after each receiver poll.
    pub fn end_poll(&mut self) {
        self.in_poll = false;
    }

    /// true if a hard read error may be injected at the current position (see RxPolicy)
    fn hard_error_allowed(&self) -> bool {
        if !self.kind.is_bytes() || self.cursor >= self.bytes.len() {
            return false;
        }
        let rest = match self.parse {
            Parse::Idle => return true,
            Parse::Len => {
                let l = self.bytes[self.cursor] as usize;
                if l == 0 {
                    return false;
                }
                (self.cursor, self.cursor + 1 + l)
            }
            Parse::Body(n) => (self.cursor, self.cursor + n as usize),
        };
        let end = rest.1.min(self.bytes.len());
        self.bytes[rest.0..end].iter().all(|b| *b != 0)
    }

    fn advance_parse(&mut self, b: u8) {
        self.parse = match self.parse {
            Parse::Idle => {
                if b == 0 {
                    Parse::Len
                } else {
                    Parse::Idle
                }
            }
            Parse::Len => {
                if b == 0 {
                    self.frames_taken += 1;
                    self.frames_this_poll += 1;
                    Parse::Idle
                } else {
                    Parse::Body(b)
                }
            }
            Parse::Body(n) => {
                if n <= 1 {
                    self.frames_taken += 1;
                    self.frames_this_poll += 1;
                    Parse::Idle
                } else {
                    Parse::Body(n - 1)
                }
            }
        };
    }
}

/// Outcome of the arrival decision at one device read.
enum Arrival {
    Deliver,
    NotYet,
}

/// One endpoint device: takes from `rx`, appends to `tx`.
pub struct Dev {
    pub sim: Sim,
    pub rx: WireRef,
    pub tx: WireRef,
    pub name: &'static str,
}

unsafe impl Send for Dev {}

const EV_RX: u8 = 1;
const EV_TX: u8 = 2;

impl Dev {
    pub fn new(sim: &Sim, name: &'static str, rx: &WireRef, tx: &WireRef) -> Dev {
        Dev {
            sim: sim.clone(),
            rx: rx.clone(),
            tx: tx.clone(),
            name,
        }
    }

    /// Decides whether the next in-flight unit has arrived. Unwinds with the
    /// blocked sentinel when one SUT call keeps asking an exhausted device.
    fn arrival(&self) -> Arrival {
        let (avail, drain, at_b, pol, consec, fpoll) = {
            let w = self.rx.borrow();
            (
                w.in_flight(),
                w.drain,
                w.at_boundary(),
                w.policy,
                w.consec_wb,
                w.frames_this_poll,
            )
        };
        if avail == 0 {
            let starved = {
                let mut w = self.rx.borrow_mut();
                w.starve += 1;
                w.starve
            };
            if starved > STARVE_BUDGET {
                self.sim.event(EV_RX, 0xdead, 0, || {
                    format!("{}.read: device exhausted, call never returns -> BLOCKED", self.name)
                });
                std::panic::panic_any(BlockedSentinel);
            }
            return Arrival::NotYet;
        }
        if self.rx.borrow().freeze {
            // (at any position: a resumable receiver may have left off in the middle of a frame)
            return Arrival::NotYet;
        }
        if drain {
            return Arrival::Deliver;
        }
        let forced = self.rx.borrow().forced_wb;
        if let Some((pos, left)) = forced {
            let cur = self.rx.borrow().cursor;
            if cur == pos && left > 0 {
                let mut w = self.rx.borrow_mut();
                w.forced_wb = Some((pos, left - 1));
                if !at_b {
                    w.wb_inside_seen += 1;
                }
                return Arrival::NotYet;
            }
        }
        if pol.trickle && at_b && fpoll >= 1 && consec < 1 {
            // once per poll (the next poll starts with frames_this_poll = 0). Bounded
            // like every other "not yet": a receiver that keeps waiting gets the data.
            self.rx.borrow_mut().consec_wb += 1;
            return Arrival::NotYet;
        }
        let rate = if at_b { pol.wb_boundary } else { pol.wb_inside };
        if rate == 0 {
            return Arrival::Deliver;
        }
        if consec >= pol.wb_cap {
            self.rx.borrow_mut().consec_wb = 0;
            return Arrival::Deliver;
        }
        if self.sim.chance(rate) {
            let mut w = self.rx.borrow_mut();
            w.consec_wb += 1;
            if !at_b {
                w.wb_inside_seen += 1;
            }
            Arrival::NotYet
        } else {
            self.rx.borrow_mut().consec_wb = 0;
            Arrival::Deliver
        }
    }

    /// Decides whether this read fails hard (nothing is consumed).
    fn hard_read_error(&self) -> bool {
        let (pm, drain, consec, allowed) = {
            let w = self.rx.borrow();
            (w.policy.hard_err_pm, w.drain, w.consec_hard, w.in_flight() > 0 && w.hard_error_allowed())
        };
        if pm == 0 || drain || !allowed || consec >= 2 {
            self.rx.borrow_mut().consec_hard = 0;
            return false;
        }
        if self.sim.draw(1000) >= 1000 - pm {
            let mut w = self.rx.borrow_mut();
            w.consec_hard += 1;
            w.hard_errors += 1;
            true
        } else {
            self.rx.borrow_mut().consec_hard = 0;
            false
        }
    }

    fn take_byte(&self) -> u8 {
        let mut w = self.rx.borrow_mut();
        let b = w.bytes[w.cursor];
        w.cursor += 1;
        w.advance_parse(b);
        b
    }

    /// Modem status lines are whatever the far end makes them: drawn from the tape when asked.
    fn line_low(&self, which: &'static str) -> bool {
        let _g = SimDomain::enter();
        let pct = self.tx.borrow().line_low_pct;
        let low = pct > 0 && self.sim.chance(pct);
        self.sim.event(EV_TX, 18, low as u64, || format!("{}.serial.read_{} -> {}", self.name, which, if low { "low" } else { "high" }));
        if low {
            self.sim.count("modem_status_line_read_low");
        }
        low
    }

    /// A call that also uses the transmit side of the device is not stuck in a read loop: the
    /// "blocked forever" detection of the receive side (see `arrival`) starts counting afresh.
    /// (A sender may legitimately look at its receiver while the transmitter is busy.)
    fn tx_activity(&self) {
        self.rx.borrow_mut().starve = 0;
    }

    /// Transmit-side fault decision for the next write/transmit call.
    fn tx_fault(&self, is_serial_write: bool, len: usize) -> TxFault {
        let (pol, call) = {
            let w = self.tx.borrow();
            (w.tx.clone(), w.tx_calls)
        };
        if let Some((at, f)) = pol.placed {
            if at == call && !matches!(f, TxFault::FlushError(_) | TxFault::FlushInterrupted(_)) {
                return f;
            }
        }
        let kind = self.tx.borrow().kind;
        match kind {
            LinkKind::Serial => {
                debug_assert!(is_serial_write);
                if self.sim.chance(pol.hard) {
                    return TxFault::HardError(self.sim.draw(3) as u8);
                }
                if self.sim.chance(pol.interrupted) {
                    return TxFault::Interrupted;
                }
                if pol.zero > 0 && self.tx.borrow().consec_zero < 3 && self.sim.chance(pol.zero) {
                    return TxFault::Zero;
                }
                if len >= 2 && self.sim.chance(pol.short) {
                    return TxFault::Short(1 + self.sim.draw(len as u32 - 1));
                }
                TxFault::None
            }
            LinkKind::Usart => {
                if self.sim.chance(pol.wb) {
                    return TxFault::WouldBlock(1 + self.sim.draw(pol.wb_burst.max(1)));
                }
                TxFault::None
            }
            LinkKind::Can => {
                if self.sim.chance(pol.displaced) {
                    return TxFault::Displaced;
                }
                if self.sim.chance(pol.wb) {
                    return TxFault::WouldBlock(1 + self.sim.draw(pol.wb_burst.max(1)));
                }
                TxFault::None
            }
        }
    }

    /// Handles would-block bursts on the transmit side. Returns true when this
    /// call must answer WouldBlock.
    fn tx_would_block(&self, fault: TxFault) -> bool {
        let mut w = self.tx.borrow_mut();
        match w.tx_wb_left {
            Some(0) => {
                w.tx_wb_left = None;
                false
            }
            Some(n) => {
                w.tx_wb_left = Some(n - 1);
                w.tx_wb_total += 1;
                true
            }
            None => {
                if let TxFault::WouldBlock(k) = fault {
                    if k == 0 {
                        return false;
                    }
                    w.tx_wb_left = Some(k - 1);
                    w.tx_wb_total += 1;
                    true
                } else {
                    false
                }
            }
        }
    }
}

fn io_err(kind_idx: u8) -> io::Error {
    match kind_idx % 3 {
        0 => io::Error::new(io::ErrorKind::BrokenPipe, "sim: broken pipe"),
        1 => io::Error::new(io::ErrorKind::TimedOut, "sim: write timed out"),
        _ => io::Error::new(io::ErrorKind::Other, "sim: device error"),
    }
}

// ---------------------------------------------------------------- USART ----

impl embedded_hal::serial::Read<u8> for Dev {
    type Error = ();

    fn read(&mut self) -> nb::Result<u8, ()> {
        let _g = SimDomain::enter();
        if self.hard_read_error() {
            let at_b = self.rx.borrow().at_boundary();
            self.sim.event(EV_RX, 9, at_b as u64, || {
                format!(
                    "{}.usart.read -> Err(device error) ({})",
                    self.name,
                    if at_b { "between frames" } else { "inside frame" }
                )
            });
            return Err(nb::Error::Other(()));
        }
        match self.arrival() {
            Arrival::NotYet => {
                let (at_b, inflight) = {
                    let w = self.rx.borrow();
                    (w.at_boundary(), w.in_flight())
                };
                self.sim.event(EV_RX, 1, at_b as u64, || {
                    format!(
                        "{}.usart.read -> WouldBlock ({}, {} in flight)",
                        self.name,
                        if at_b { "between frames" } else { "inside frame" },
                        inflight
                    )
                });
                Err(nb::Error::WouldBlock)
            }
            Arrival::Deliver => {
                let b = self.take_byte();
                self.sim.event(EV_RX, 2, b as u64, || {
                    format!("{}.usart.read -> {:02x}", self.name, b)
                });
                Ok(b)
            }
        }
    }
}

impl embedded_hal::serial::Write<u8> for Dev {
    type Error = ();

    fn write(&mut self, word: u8) -> nb::Result<(), ()> {
        let _g = SimDomain::enter();
        self.tx_activity();
        let pending = self.tx.borrow().tx_wb_left.is_some();
        let fault = if pending {
            TxFault::None
        } else {
            self.tx_fault(false, 1)
        };
        if self.tx_would_block(fault) {
            self.sim.event(EV_TX, 1, 0, || {
                format!("{}.usart.write({:02x}) -> WouldBlock", self.name, word)
            });
            return Err(nb::Error::WouldBlock);
        }
        let mut w = self.tx.borrow_mut();
        w.bytes.push(word);
        w.tx_calls += 1;
        drop(w);
        self.sim.event(EV_TX, 2, word as u64, || {
            format!("{}.usart.write({:02x}) -> Ok", self.name, word)
        });
        Ok(())
    }

    fn flush(&mut self) -> nb::Result<(), ()> {
        let _g = SimDomain::enter();
        self.tx_activity();
        // a transmitter that is still shifting out reports would-block here too
        let (wb, left) = {
            let w = self.tx.borrow();
            (w.tx.wb, w.flush_wb_left)
        };
        let answer_wb = match left {
            Some(0) => {
                self.tx.borrow_mut().flush_wb_left = None;
                false
            }
            Some(n) => {
                self.tx.borrow_mut().flush_wb_left = Some(n - 1);
                true
            }
            None => {
                if self.sim.chance(wb) {
                    let burst = self.tx.borrow().tx.wb_burst.max(1);
                    let k = 1 + self.sim.draw(burst.min(50));
                    self.tx.borrow_mut().flush_wb_left = Some(k - 1);
                    true
                } else {
                    false
                }
            }
        };
        self.tx.borrow_mut().flush_calls += 1;
        if answer_wb {
            self.tx.borrow_mut().tx_wb_total += 1;
            self.sim.event(EV_TX, 12, 0, || format!("{}.usart.flush -> WouldBlock", self.name));
            return Err(nb::Error::WouldBlock);
        }
        self.sim.event(EV_TX, 13, 0, || format!("{}.usart.flush -> Ok", self.name));
        Ok(())
    }
}

// ------------------------------------------------------------------ CAN ----

impl bxcan::Instance for Dev {
    fn sim_receive(&mut self) -> nb::Result<BxFrame, ()> {
        let _g = SimDomain::enter();
        match self.arrival() {
            Arrival::NotYet => {
                let inflight = self.rx.borrow().in_flight();
                self.sim.event(EV_RX, 3, 0, || {
                    format!("{}.can.receive -> WouldBlock ({} in flight)", self.name, inflight)
                });
                Err(nb::Error::WouldBlock)
            }
            Arrival::Deliver => {
                let unit = {
                    let mut w = self.rx.borrow_mut();
                    let u = w.cframes[w.cursor].clone();
                    w.cursor += 1;
                    w.frames_taken += 1;
                    w.frames_this_poll += 1;
                    u
                };
                match unit {
                    CanUnit::Frame(f) => {
                        self.sim.event(EV_RX, 4, can_hash(&f), || {
                            format!("{}.can.receive -> {}", self.name, show_can(&f))
                        });
                        Ok(f)
                    }
                    CanUnit::Overrun => {
                        self.sim.event(EV_RX, 5, 0, || {
                            format!("{}.can.receive -> Err(overrun)", self.name)
                        });
                        Err(nb::Error::Other(()))
                    }
                }
            }
        }
    }

    fn sim_transmit(&mut self, frame: &BxFrame) -> nb::Result<Option<BxFrame>, Infallible> {
        let _g = SimDomain::enter();
        self.tx_activity();
        let pending = self.tx.borrow().tx_wb_left.is_some();
        let fault = if pending {
            TxFault::None
        } else {
            self.tx_fault(false, 1)
        };
        if self.tx_would_block(fault) {
            self.sim.event(EV_TX, 3, 0, || {
                format!("{}.can.transmit({}) -> WouldBlock", self.name, show_can(frame))
            });
            return Err(nb::Error::WouldBlock);
        }
        let mut w = self.tx.borrow_mut();
        w.cframes.push(CanUnit::Frame(frame.clone()));
        w.tx_calls += 1;
        if fault == TxFault::Displaced {
            w.tx_displaced += 1;
            drop(w);
            self.sim.event(EV_TX, 4, can_hash(frame), || {
                format!(
                    "{}.can.transmit({}) -> Ok(Some(displaced pending frame))",
                    self.name,
                    show_can(frame)
                )
            });
            // the displaced frame is some lower-priority frame that was pending
            let displaced = BxFrame::new_data(
                bxcan::ExtendedId::new(0x1fff_fff0).unwrap(),
                bxcan::Data::new(&[0xdd]).unwrap(),
            );
            return Ok(Some(displaced));
        }
        drop(w);
        self.sim.event(EV_TX, 5, can_hash(frame), || {
            format!("{}.can.transmit({}) -> Ok(None)", self.name, show_can(frame))
        });
        Ok(None)
    }
}

pub fn can_hash(f: &BxFrame) -> u64 {
    let mut h = 0xcbf29ce484222325u64;
    let (idv, ext) = match f.id() {
        bxcan::Id::Standard(s) => (s.as_raw() as u32, 0u8),
        bxcan::Id::Extended(e) => (e.as_raw(), 1u8),
    };
    h = crate::sim::hash_bytes(h, &idv.to_be_bytes());
    h = crate::sim::hash_bytes(h, &[ext, f.is_remote_frame() as u8, f.dlc()]);
    if let Some(d) = f.data() {
        h = crate::sim::hash_bytes(h, d);
    }
    h
}

pub fn show_can(f: &BxFrame) -> String {
    let (idv, ext) = match f.id() {
        bxcan::Id::Standard(s) => (s.as_raw() as u32, "std"),
        bxcan::Id::Extended(e) => (e.as_raw(), "ext"),
    };
    match f.data() {
        Some(d) => format!("{}:{:08x}#{}", ext, idv, crate::sim::hex(d)),
        None => format!("{}:{:08x}#R{}", ext, idv, f.dlc()),
    }
}

pub fn can_eq(a: &BxFrame, b: &BxFrame) -> bool {
    a.id() == b.id()
        && a.is_remote_frame() == b.is_remote_frame()
        && a.dlc() == b.dlc()
        && a.data().map(|d| d.to_vec()) == b.data().map(|d| d.to_vec())
}

// ---------------------------------------------------------- serial port ----

impl io::Read for Dev {
    fn read(&mut self, buf: &mut [u8]) -> io::Result<usize> {
        let _g = SimDomain::enter();
        if buf.is_empty() {
            return Ok(0);
        }
        // `Interrupted` is a retryable non-answer; bounded so that data eventually arrives
        let (pol, consec_intr, drain, avail) = {
            let w = self.rx.borrow();
            (w.policy, w.consec_intr, w.drain, w.in_flight())
        };
        if !drain && avail > 0 && pol.interrupted > 0 && consec_intr < 3 && self.sim.chance(pol.interrupted) {
            self.rx.borrow_mut().consec_intr += 1;
            self.sim.event(EV_RX, 6, 0, || format!("{}.serial.read -> Err(Interrupted)", self.name));
            return Err(io::Error::new(io::ErrorKind::Interrupted, "sim: EINTR"));
        }
        self.rx.borrow_mut().consec_intr = 0;
        if self.hard_read_error() {
            self.sim.event(EV_RX, 10, 0, || format!("{}.serial.read({}) -> Err(device error)", self.name, buf.len()));
            return Err(io::Error::new(io::ErrorKind::Other, "sim: device error"));
        }
        // inside a frame the data is there (whole frames are supplied): no timeout
        let at_b = self.rx.borrow().at_boundary();
        let frozen = self.rx.borrow().freeze;
        let arrival = if at_b || avail == 0 || frozen {
            self.arrival()
        } else {
            Arrival::Deliver
        };
        match arrival {
            Arrival::NotYet => {
                if pol.idle_ok0 > 0 && self.sim.chance(pol.idle_ok0) {
                    self.sim.event(EV_RX, 14, avail as u64, || {
                        format!("{}.serial.read({}) -> Ok(0) (idle, {} in flight)", self.name, buf.len(), avail)
                    });
                    self.sim.count("serial_idle_read_returned_zero");
                    return Ok(0);
                }
                self.sim.event(EV_RX, 7, avail as u64, || {
                    format!("{}.serial.read({}) -> Err(TimedOut) ({} in flight)", self.name, buf.len(), avail)
                });
                Err(io::Error::new(io::ErrorKind::TimedOut, "sim: no data yet"))
            }
            Arrival::Deliver => {
                // never hand out bytes across a frame boundary in one read: the
                // arrival decision is per link frame
                let max = buf.len().min(avail);
                let mut n = max;
                if !drain && max >= 2 && pol.short_read > 0 && self.sim.chance(pol.short_read) {
                    n = 1 + self.sim.draw(max as u32 - 1) as usize;
                    self.sim.count("serial_short_read");
                }
                for slot in buf.iter_mut().take(n) {
                    *slot = self.take_byte();
                }
                let got = &buf[..n];
                self.sim.event(EV_RX, 8, crate::sim::hash_bytes(n as u64, got), || {
                    format!(
                        "{}.serial.read({}) -> Ok({}) {}",
                        self.name,
                        buf.len(),
                        n,
                        crate::sim::hex(&got[..n.min(16)])
                    )
                });
                Ok(n)
            }
        }
    }
}

impl io::Write for Dev {
    fn write(&mut self, buf: &[u8]) -> io::Result<usize> {
        let _g = SimDomain::enter();
        self.tx_activity();
        if buf.is_empty() {
            return Ok(0);
        }
        let fault = self.tx_fault(true, buf.len());
        let mut w = self.tx.borrow_mut();
        w.tx_calls += 1;
        match fault {
            TxFault::HardError(k) => {
                w.tx_hard_errors += 1;
                drop(w);
                self.sim.event(EV_TX, 6, k as u64, || {
                    format!("{}.serial.write({} bytes) -> Err({:?})", self.name, buf.len(), io_err(k).kind())
                });
                Err(io_err(k))
            }
            TxFault::Interrupted => {
                w.tx_interrupted += 1;
                drop(w);
                self.sim.event(EV_TX, 7, 0, || {
                    format!("{}.serial.write({} bytes) -> Err(Interrupted)", self.name, buf.len())
                });
                Err(io::Error::new(io::ErrorKind::Interrupted, "sim: EINTR"))
            }
            TxFault::Zero => {
                w.tx_zero += 1;
                w.consec_zero += 1;
                drop(w);
                self.sim.event(EV_TX, 17, buf.len() as u64, || format!("{}.serial.write({} bytes) -> Ok(0) (nothing accepted)", self.name, buf.len()));
                Ok(0)
            }
            TxFault::Short(n) if (n as usize) < buf.len() && n >= 1 => {
                let n = n as usize;
                w.bytes.extend_from_slice(&buf[..n]);
                w.unflushed += n as u64;
                w.consec_zero = 0;
                w.tx_short += 1;
                w.tx_flush_ok_after_last_write = false;
                drop(w);
                self.sim.event(EV_TX, 8, n as u64, || {
                    format!(
                        "{}.serial.write({} bytes {}) -> Ok({}) SHORT",
                        self.name,
                        buf.len(),
                        crate::sim::hex(&buf[..buf.len().min(16)]),
                        n
                    )
                });
                Ok(n)
            }
            _ => {
                w.bytes.extend_from_slice(buf);
                w.unflushed += buf.len() as u64;
                w.consec_zero = 0;
                w.tx_flush_ok_after_last_write = false;
                drop(w);
                self.sim.event(EV_TX, 9, crate::sim::hash_bytes(0, buf), || {
                    format!(
                        "{}.serial.write({} bytes {}) -> Ok({})",
                        self.name,
                        buf.len(),
                        crate::sim::hex(&buf[..buf.len().min(16)]),
                        buf.len()
                    )
                });
                Ok(buf.len())
            }
        }
    }

    fn flush(&mut self) -> io::Result<()> {
        let _g = SimDomain::enter();
        self.tx_activity();
        let (pol, call) = {
            let w = self.tx.borrow();
            (w.tx.clone(), w.flush_calls)
        };
        // a retryable non-answer first
        let consec = self.tx.borrow().consec_flush_intr;
        let mut intr = false;
        if let Some((at, TxFault::FlushInterrupted(n))) = pol.placed {
            if call >= at && call < at + n {
                intr = true;
            }
        }
        if !intr && pol.flush_intr > 0 && consec < pol.flush_intr_cap && self.sim.chance(pol.flush_intr) {
            intr = true;
        }
        if intr {
            let mut w = self.tx.borrow_mut();
            w.flush_calls += 1;
            w.consec_flush_intr += 1;
            w.tx_interrupted += 1;
            drop(w);
            self.sim.event(EV_TX, 14, 0, || format!("{}.serial.flush -> Err(Interrupted)", self.name));
            self.sim.count("flush_interrupted");
            return Err(io::Error::new(io::ErrorKind::Interrupted, "sim: EINTR"));
        }
        self.tx.borrow_mut().consec_flush_intr = 0;
        let mut fail: Option<u8> = None;
        if let Some((at, TxFault::FlushError(k))) = pol.placed {
            if at == call {
                fail = Some(k);
            }
        }
        if fail.is_none() && self.sim.chance(pol.flush_err) {
            fail = Some(self.sim.draw(3) as u8);
        }
        let mut w = self.tx.borrow_mut();
        w.flush_calls += 1;
        if let Some(k) = fail {
            w.tx_flush_errors += 1;
            drop(w);
            self.sim.event(EV_TX, 10, k as u64, || {
                format!("{}.serial.flush -> Err({:?})", self.name, io_err(k).kind())
            });
            return Err(io_err(k));
        }
        w.tx_flush_ok_after_last_write = true;
        w.unflushed = 0;
        w.flushed_len = w.bytes.len();
        drop(w);
        self.sim.event(EV_TX, 11, 0, || format!("{}.serial.flush -> Ok", self.name));
        Ok(())
    }
}

impl serialport::SerialPort for Dev {
    fn name(&self) -> Option<String> {
        Some(self.name.to_string())
    }
    fn baud_rate(&self) -> serialport::Result<u32> {
        Ok(115_200)
    }
    fn data_bits(&self) -> serialport::Result<serialport::DataBits> {
        Ok(serialport::DataBits::Eight)
    }
    fn flow_control(&self) -> serialport::Result<serialport::FlowControl> {
        Ok(match self.tx.borrow().flow_control {
            1 => serialport::FlowControl::Software,
            2 => serialport::FlowControl::Hardware,
            _ => serialport::FlowControl::None,
        })
    }
    fn parity(&self) -> serialport::Result<serialport::Parity> {
        Ok(serialport::Parity::None)
    }
    fn stop_bits(&self) -> serialport::Result<serialport::StopBits> {
        Ok(serialport::StopBits::One)
    }
    fn timeout(&self) -> Duration {
        Duration::from_millis(0)
    }
    fn set_baud_rate(&mut self, _: u32) -> serialport::Result<()> {
        Ok(())
    }
    fn set_data_bits(&mut self, _: serialport::DataBits) -> serialport::Result<()> {
        Ok(())
    }
    fn set_flow_control(&mut self, _: serialport::FlowControl) -> serialport::Result<()> {
        Ok(())
    }
    fn set_parity(&mut self, _: serialport::Parity) -> serialport::Result<()> {
        Ok(())
    }
    fn set_stop_bits(&mut self, _: serialport::StopBits) -> serialport::Result<()> {
        Ok(())
    }
    fn set_timeout(&mut self, _: Duration) -> serialport::Result<()> {
        Ok(())
    }
    fn write_request_to_send(&mut self, _: bool) -> serialport::Result<()> {
        Ok(())
    }
    fn write_data_terminal_ready(&mut self, _: bool) -> serialport::Result<()> {
        Ok(())
    }
    fn read_clear_to_send(&mut self) -> serialport::Result<bool> {
        Ok(!self.line_low("CTS"))
    }
    fn read_data_set_ready(&mut self) -> serialport::Result<bool> {
        Ok(!self.line_low("DSR"))
    }
    fn read_ring_indicator(&mut self) -> serialport::Result<bool> {
        Ok(false)
    }
    fn read_carrier_detect(&mut self) -> serialport::Result<bool> {
        Ok(!self.line_low("CD"))
    }
    fn bytes_to_read(&self) -> serialport::Result<u32> {
        Ok(self.rx.borrow().in_flight() as u32)
    }
    fn bytes_to_write(&self) -> serialport::Result<u32> {
        // what was written since the last successful flush still sits in the output queue
        Ok(self.tx.borrow().unflushed.min(u32::MAX as u64) as u32)
    }
    /// `clear(Input)` discards what sits unread in the driver's receive buffer. Called while
    /// the receiver object is being constructed it discards nothing that matters (nothing has
    /// arrived for a receiver that does not exist yet). Called during a poll, tick, send or
    /// exchange it is a schedule
    /// question how much of the traffic in flight had already reached the driver buffer: the
    /// tape decides between "nothing yet" and "everything in flight" - the latter is the
    /// adversarial but legal case in which the following packets were already buffered.
    fn clear(&self, which: serialport::ClearBuffer) -> serialport::Result<()> {
        let _g = SimDomain::enter();
        if matches!(which, serialport::ClearBuffer::Output) {
            return Ok(());
        }
        let (in_poll, avail) = {
            let w = self.rx.borrow();
            (w.in_poll, w.in_flight())
        };
        if in_poll && avail > 0 && self.sim.draw(2) == 1 {
            let mut w = self.rx.borrow_mut();
            w.cursor = w.bytes.len();
            w.parse = Parse::Idle;
            w.cleared_units += avail as u64;
            drop(w);
            self.sim.event(EV_RX, 15, avail as u64, || {
                format!("{}.serial.clear(Input) during a call: {} unread bytes that had already arrived are discarded", self.name, avail)
            });
            self.sim.count("serial_input_cleared_during_poll");
        } else {
            self.sim.event(EV_RX, 16, 0, || format!("{}.serial.clear(Input): nothing had arrived yet", self.name));
        }
        Ok(())
    }
    fn try_clone(&self) -> serialport::Result<Box<dyn serialport::SerialPort>> {
        Ok(Box::new(Dev {
            sim: self.sim.clone(),
            rx: self.rx.clone(),
            tx: self.tx.clone(),
            name: self.name,
        }))
    }
    fn set_break(&self) -> serialport::Result<()> {
        Ok(())
    }
    fn clear_break(&self) -> serialport::Result<()> {
        Ok(())
    }
}

// ------------------------------------------------ the three real links ----

use ross_protocol::interface::can::Can;
use ross_protocol::interface::serial::Serial;
use ross_protocol::interface::usart::Usart;
use ross_protocol::interface::{Interface, InterfaceError};
use ross_protocol::packet::Packet;

/// The real interface of the chosen kind over a simulated device.
pub enum AnyLink {
    Can(Can<Dev>),
    Usart(Usart<Dev>),
    Serial(Serial),
}

impl AnyLink {
    pub fn new(kind: LinkKind, dev: Dev) -> AnyLink {
        match kind {
            LinkKind::Can => AnyLink::Can(Can::new(bxcan::Can::new(dev))),
            LinkKind::Usart => AnyLink::Usart(Usart::new(dev)),
            LinkKind::Serial => AnyLink::Serial(Serial::new(Box::new(dev))),
        }
    }
}

impl Interface for AnyLink {
    fn try_get_packet(&mut self) -> Result<Packet, InterfaceError> {
        match self {
            AnyLink::Can(l) => l.try_get_packet(),
            AnyLink::Usart(l) => l.try_get_packet(),
            AnyLink::Serial(l) => l.try_get_packet(),
        }
    }

    fn try_send_packet(&mut self, packet: &Packet) -> Result<(), InterfaceError> {
        match self {
            AnyLink::Can(l) => l.try_send_packet(packet),
            AnyLink::Usart(l) => l.try_send_packet(packet),
            AnyLink::Serial(l) => l.try_send_packet(packet),
        }
    }
}
