//! S-BUILDER: the real `PacketBuilder` behind a lossy / duplicating /
//! reordering / corrupting frame channel, in lock-step with a frame-acceptance
//! model written from the statement of C07.

use crate::gen::fill_pattern;
use crate::link_hostile::{frames_of, panic_site, RF};
use crate::scenario::{bucket, fail, Outcome, Tier, EV_APP};
use crate::sim::{hex, show_packet, sut, Crash, Sim};
use ross_protocol::packet::{Packet, PacketBuilder, PacketBuilderError};

fn show_rf(f: &RF) -> String {
    format!(
        "Frame{{{} {} {} id:{} addr:{:04x} len:{} data:{}}}",
        if f.not_error { "data" } else { "error" },
        if f.start { "start" } else { "cont" },
        if f.multi { "multi" } else { "single" },
        f.id,
        f.addr,
        f.data_len,
        hex(&f.data[..f.data_len as usize])
    )
}

fn payload_of(f: &RF) -> &[u8] {
    let from = if f.multi { 1 } else { 0 };
    if (f.data_len as usize) < from {
        &[]
    } else {
        &f.data[from..f.data_len as usize]
    }
}

struct Model {
    is_error: bool,
    addr: u16,
    announced: u32,
    accepted: Vec<Vec<u8>>,
}

impl Model {
    fn count(&self) -> u32 {
        self.accepted.len() as u32
    }
    fn acceptable(&self, f: &RF) -> bool {
        (!f.not_error) == self.is_error
            && f.addr == self.addr
            && !f.start
            && f.multi
            && f.id as u32 == self.count()
            && (f.id as u32) < self.announced
    }
    fn applicable(&self, f: &RF) -> Vec<PacketBuilderError> {
        let mut v = Vec::new();
        if (!f.not_error) != self.is_error {
            v.push(PacketBuilderError::WrongFrameType);
        }
        if f.addr != self.addr {
            v.push(PacketBuilderError::DeviceAddressMismatch);
        }
        if !f.multi {
            v.push(PacketBuilderError::SingleFramePacket);
        }
        if f.start || f.id as u32 != self.count() {
            v.push(PacketBuilderError::OutOfOrder);
        }
        // (when the packet already has all its frames, any further frame is one too many)
        if (!f.start && f.id as u32 >= self.announced) || self.count() == self.announced {
            v.push(PacketBuilderError::TooManyFrames);
        }
        v
    }
    fn payload(&self) -> Vec<u8> {
        self.accepted.iter().flatten().copied().collect()
    }
}

#[derive(PartialEq, Debug)]
struct Snapshot {
    expected: u16,
    count: u16,
    left: u16,
    build: Result<Packet, PacketBuilderError>,
}

fn snapshot(b: &PacketBuilder) -> Result<Snapshot, Crash> {
    sut(|| Snapshot {
        expected: b.expected_frame_count(),
        count: b.frame_count(),
        left: b.frames_left(),
        build: b.build(),
    })
}

fn synth_frame(sim: &Sim, addrs: &[u16; 2], near: u32, announced: u32) -> RF {
    let dl = sim.pick(&[8u8, 1, 0, 2, 7, 4]);
    let mut data = [0u8; 8];
    let bytes = fill_pattern(3, sim.draw(4096), dl as usize);
    data[..dl as usize].copy_from_slice(&bytes);
    let id = match sim.draw(10) {
        0 => near,
        1 => near + 1,
        2 => near.saturating_sub(1),
        3 => announced,
        4 => announced.saturating_sub(1),
        5 => announced + 1,
        6 => 0,
        // ids no frame decoder produces but the frame type can hold: the expected id plus a
        // multiple of 4096 or 256 (an alias if ids are compared in 12 or 8 bits), any 16-bit value
        7 => near + 0x1000 * (1 + sim.draw(15)),
        8 => sim.pick(&[near + 0x100, near + 0x8000, 0xffff, 0x1000, near | 0xf000]),
        _ => sim.draw(4096),
    }
    .min(0xffff) as u16;
    RF {
        not_error: sim.chance(80),
        start: sim.chance(25),
        multi: sim.chance(80),
        id,
        addr: match sim.draw(6) {
            5 => addrs[0] ^ (1u16 << sim.draw(16)),
            k => addrs[(k % 2) as usize],
        },
        data_len: dl,
        data,
    }
}

pub fn run(sim: &Sim, prop: &str, tier: Tier) -> Outcome {
    let addrs = [sim.pick(&[0x0101u16, 0x0000, 0xffff]), sim.pick(&[0x0202u16, 0x0101, 0xfffe])];
    let n_src = 1 + sim.draw(3) as usize;
    let mut srcs: Vec<Vec<RF>> = Vec::new();
    let mut src_err = false;
    for i in 0..n_src {
        let len = match (tier, sim.draw(60)) {
            (Tier::Thorough, 59) => sim.pick(&[28672usize, 28665, 1793]),
            (Tier::Quick, 57) if sim.chance(5) => sim.pick(&[28672usize, 28665]),
            (_, 58) => sim.pick(&[1793usize, 1785, 700]),
            _ => sim.pick(&[15usize, 9, 22, 36, 8, 0, 57, 84, 64, 16]),
        };
        let p = Packet {
            is_error: if i == 0 { sim.chance(30) } else if sim.chance(70) { src_err } else { !src_err },
            device_address: if i == 0 || sim.chance(60) { addrs[0] } else { addrs[1] },
            data: fill_pattern(sim.pick(&[6u32, 3, 1]), sim.draw(4096), len),
        };
        if i == 0 {
            src_err = p.is_error;
        }
        match frames_of(&p) {
            Ok(mut f) => {
                // some sources are *sparse*: well-formed multi-frame packets whose frames carry
                // few or no data bytes (legal on the byte links, never produced by the fragmenter)
                if f.len() >= 2 && sim.draw(12) == 11 {
                    for fr in f.iter_mut() {
                        let dl = sim.pick(&[1u8, 0, 2, 1, 0, 8]);
                        fr.data_len = dl;
                        for k in dl as usize..8 {
                            fr.data[k] = 0;
                        }
                    }
                    sim.count("sparse_source_packet");
                }
                srcs.push(f)
            }
            Err(e) => return Outcome::Foreign("C10.encode", e.0),
        }
    }

    // ---- the first frame offered to the constructor
    let first: RF = match sim.draw(10) {
        // a synthetic start frame: any announced count 1..=4096, multi or single
        7 => {
            let mut f = synth_frame(sim, &addrs, 0, 0);
            f.start = true;
            f.id = sim.pick(&[0u16, 1, 2, 5, 255, 256, 4095, 40]);
            f
        }
        // a frame that is not a start frame
        8 | 9 => {
            let mut f = synth_frame(sim, &addrs, 1, 3);
            f.start = false;
            f
        }
        _ => srcs[0][0],
    };
    sim.set_sample(|| {
        format!(
            "first={} sources=[{}]",
            show_rf(&first),
            srcs.iter().map(|s| format!("{} frames", s.len())).collect::<Vec<_>>().join(", ")
        )
    });
    let sig = |w: &str| w.to_string();

    sim.event(EV_APP, 10, first.id as u64, || format!("PacketBuilder::new({})", show_rf(&first)));
    let made = sut(|| PacketBuilder::new(first.to_ross()));
    let mut builder = match made {
        Err(c) => {
            return fail(
                prop,
                "C07.new",
                format!("PacketBuilder::new crashed on {}: {:?}", show_rf(&first), c),
                sig("new-crash"),
            )
        }
        Ok(Ok(b)) => {
            if !first.start {
                return fail(
                    prop,
                    "C07.new",
                    format!("a reassembler was created from a frame that is not a start frame: {}", show_rf(&first)),
                    sig("new-accepts-non-start"),
                );
            }
            b
        }
        Ok(Err(e)) => {
            if first.start {
                return fail(
                    prop,
                    "C07.new",
                    format!("a start frame was refused ({:?}): {}", e, show_rf(&first)),
                    sig("new-refuses-start"),
                );
            }
            sim.probe("constructor_refused_non_start");
            return Outcome::Pass;
        }
    };
    let mut model = Model {
        is_error: !first.not_error,
        addr: first.addr,
        announced: first.id as u32 + 1,
        accepted: vec![payload_of(&first).to_vec()],
    };
    match snapshot(&builder) {
        Ok(s) => {
            if s.expected as u32 != model.announced || s.count != 1 || s.left as u32 != model.announced - 1 {
                return fail(
                    prop,
                    "C07.new",
                    format!(
                        "after creation from {}: announced {} accepted {} remaining {} (want {}, 1, {})",
                        show_rf(&first),
                        s.expected,
                        s.count,
                        s.left,
                        model.announced,
                        model.announced - 1
                    ),
                    sig("new-counts"),
                );
            }
        }
        Err(c) => return fail(prop, "C07.count", format!("observers crashed right after creation: {:?}", c), sig("count-crash")),
    }

    // ---- the frames offered afterwards: the source packets through a faulty channel
    let mut feed: Vec<(RF, &'static str)> = Vec::new();
    let faulty_pct = sim.pick(&[30u32, 0, 10, 70]);
    let follows_src0 = first.start && first.addr == srcs[0][0].addr && first.id == srcs[0][0].id;
    for (si, src) in srcs.iter().enumerate() {
        let skip = if si == 0 && follows_src0 { 1 } else { 0 };
        for f in src.iter().skip(skip) {
            if !sim.chance(faulty_pct) {
                feed.push((*f, "as-sent"));
                continue;
            }
            match sim.draw(8) {
                0 => {
                    sim.count("chan_dropped");
                }
                1 => {
                    feed.push((*f, "as-sent"));
                    feed.push((*f, "duplicate"));
                    sim.count("chan_duplicated");
                }
                2 => {
                    // delayed: overtaken by the next frame
                    let at = feed.len();
                    feed.push((*f, "delayed"));
                    if at > 0 {
                        feed.swap(at - 1, at);
                    }
                    sim.count("chan_reordered");
                }
                3 => {
                    let mut g = *f;
                    match sim.draw(6) {
                        0 => g.not_error = !g.not_error,
                        1 => {
                            // another device: the run's second address, or the packet's own
                            // address with one bit flipped / its bytes swapped / one byte changed
                            g.addr = match sim.draw(5) {
                                0 => addrs[1] ^ (sim.draw(2) as u16),
                                1 | 2 => model.addr ^ (1u16 << sim.draw(16)),
                                3 => model.addr.swap_bytes() ^ ((model.addr.swap_bytes() == model.addr) as u16),
                                _ => model.addr ^ sim.pick(&[0xff00u16, 0x00ff, 0xffff, 0x8001]),
                            };
                        }
                        2 => g.start = !g.start,
                        3 => g.multi = !g.multi,
                        4 => {
                            g.data_len = sim.draw(9) as u8;
                            for i in g.data_len as usize..8 {
                                g.data[i] = 0;
                            }
                        }
                        _ => {
                            if g.data_len > 0 {
                                let i = sim.draw(g.data_len as u32) as usize;
                                g.data[i] ^= 0x40;
                            }
                        }
                    }
                    for i in g.data_len as usize..8 {
                        g.data[i] = 0;
                    }
                    feed.push((g, "rewritten"));
                    sim.count("chan_rewritten");
                }
                4 => {
                    let mut g = *f;
                    let ann = model.announced;
                    g.id = (match sim.draw(9) {
                        0 => g.id as u32 + 1,
                        1 => (g.id as u32).saturating_sub(1),
                        2 => g.id as u32 + 2 + sim.draw(5),
                        3 => ann,
                        4 => ann + 1,
                        5 => ann.saturating_sub(1),
                        // the right id plus a multiple of 4096 / 256, or any 16-bit value (not
                        // producible by a frame decoder, but a `Frame` can hold it)
                        6 => {
                            sim.count("chan_id_beyond_12_bits");
                            g.id as u32 + 0x1000 * (1 + sim.draw(15))
                        }
                        7 => {
                            sim.count("chan_id_beyond_12_bits");
                            sim.pick(&[g.id as u32 + 0x100, g.id as u32 + 0x8000, 0xffff, g.id as u32 | 0xf000, sim.draw(65536)])
                        }
                        _ => sim.draw(4096),
                    })
                    .min(0xffff) as u16;
                    feed.push((g, "id-rewritten"));
                    sim.count("chan_id_rewritten");
                }
                5 => {
                    feed.push((synth_frame(sim, &addrs, f.id as u32, model.announced), "foreign"));
                    feed.push((*f, "as-sent"));
                    sim.count("chan_foreign_injected");
                }
                _ => {
                    feed.push((*f, "as-sent"));
                }
            }
        }
    }
    // the original first frame is offered again somewhere (a sender that restarts)
    if sim.chance(6) {
        let at = sim.draw(feed.len() as u32 + 1) as usize;
        feed.insert(at, (first, "first-frame-again"));
        sim.count("chan_first_frame_repeated");
    }
    // frames that keep arriving after the end of the stream / after completion
    let extra = if sim.draw(300) == 299 {
        sim.probe("over_256_frames_offered_late");
        300 + sim.draw(100)
    } else {
        sim.draw(5)
    };
    for _ in 0..extra {
        let near = model.announced.min(feed.len() as u32 + 1);
        feed.push((synth_frame(sim, &addrs, near, model.announced), "late"));
    }

    let mut rejected_then_accepted = false;
    let mut any_rejected = false;
    for (f, how) in feed.iter() {
        let before = match snapshot(&builder) {
            Ok(s) => s,
            Err(c) => return fail(prop, "C07.count", format!("observers crashed: {:?}", c), sig(&crash_sig("count", &c))),
        };
        let want_accept = model.acceptable(f);
        let res = sut(|| builder.add_frame(f.to_ross()));
        sim.event(
            EV_APP,
            11,
            match &res {
                Ok(Ok(())) => 1,
                Ok(Err(e)) => 2 + err_code(e),
                Err(_) => 99,
            },
            || {
                format!(
                    "add_frame({} [{}]) -> {:?}   (model: {} accepted of {} announced; {})",
                    show_rf(f),
                    how,
                    res,
                    model.count(),
                    model.announced,
                    if want_accept { "acceptable" } else { "not acceptable" }
                )
            },
        );
        match res {
            Err(c) => {
                return fail(
                    prop,
                    "C07.accept",
                    format!("add_frame crashed on {}: {:?}", show_rf(f), c),
                    sig(&crash_sig("add", &c)),
                )
            }
            Ok(Ok(())) => {
                if !want_accept {
                    return fail(
                        prop,
                        "C07.accept",
                        format!(
                            "accepted a frame that is not the exact next frame of this packet: {} while {} of {} frames were accepted (packet: {} addr {:04x})",
                            show_rf(f),
                            model.count(),
                            model.announced,
                            if model.is_error { "error" } else { "data" },
                            model.addr
                        ),
                        sig("accepts-wrong-frame"),
                    );
                }
                model.accepted.push(payload_of(f).to_vec());
                if any_rejected {
                    rejected_then_accepted = true;
                }
            }
            Ok(Err(e)) => {
                any_rejected = true;
                if want_accept {
                    return fail(
                        prop,
                        "C07.accept",
                        format!(
                            "rejected ({:?}) the exact next frame {} while {} of {} frames were accepted",
                            e,
                            show_rf(f),
                            model.count(),
                            model.announced
                        ),
                        sig("rejects-next-frame"),
                    );
                }
                let applicable = model.applicable(f);
                if !applicable.contains(&e) {
                    return fail(
                        prop,
                        "C07.reason",
                        format!(
                            "rejection reason {:?} does not apply to {} (accepted {} of {}, packet {} addr {:04x}); applicable: {:?}",
                            e,
                            show_rf(f),
                            model.count(),
                            model.announced,
                            if model.is_error { "error" } else { "data" },
                            model.addr,
                            applicable
                        ),
                        sig("wrong-reason"),
                    );
                }
                sim.count(match e {
                    PacketBuilderError::OutOfOrder => "rejected_out_of_order",
                    PacketBuilderError::SingleFramePacket => "rejected_single_frame",
                    PacketBuilderError::TooManyFrames => "rejected_too_many",
                    PacketBuilderError::WrongFrameType => "rejected_wrong_type",
                    PacketBuilderError::DeviceAddressMismatch => "rejected_address",
                    PacketBuilderError::MissingFrames => "rejected_missing",
                });
                match snapshot(&builder) {
                    Ok(after) => {
                        if after != before {
                            return fail(
                                prop,
                                "C07.unchanged",
                                format!(
                                    "a rejected frame ({:?}, {}) changed the reassembly state: before announced/accepted/remaining {}/{}/{} build {:?}; after {}/{}/{} build {:?}",
                                    e,
                                    show_rf(f),
                                    before.expected,
                                    before.count,
                                    before.left,
                                    before.build.as_ref().map(show_packet),
                                    after.expected,
                                    after.count,
                                    after.left,
                                    after.build.as_ref().map(show_packet)
                                ),
                                sig("rejected-frame-changed-state"),
                            );
                        }
                    }
                    Err(c) => return fail(prop, "C07.count", format!("observers crashed after a rejection: {:?}", c), sig(&crash_sig("count", &c))),
                }
            }
        }
        // ---- invariants after every step
        let s = match snapshot(&builder) {
            Ok(s) => s,
            Err(c) => {
                return fail(
                    prop,
                    "C07.count",
                    format!("frame accounting crashed (underflow?) with {} accepted of {} announced: {:?}", model.count(), model.announced, c),
                    sig(&crash_sig("count", &c)),
                )
            }
        };
        if s.expected as u32 != model.announced
            || s.count as u32 != model.count()
            || s.count < 1
            || s.count > s.expected
            || s.count as u32 + s.left as u32 != s.expected as u32
        {
            return fail(
                prop,
                "C07.count",
                format!(
                    "accounting: announced {} accepted {} remaining {}; model announced {} accepted {}",
                    s.expected,
                    s.count,
                    s.left,
                    model.announced,
                    model.count()
                ),
                sig("accounting"),
            );
        }
        let complete = model.count() == model.announced;
        let again = sut(|| builder.build());
        match (&s.build, complete) {
            (Ok(p), true) => {
                if p.is_error != model.is_error || p.device_address != model.addr || p.data != model.payload() {
                    return fail(
                        prop,
                        "C07.payload",
                        format!(
                            "completed packet {} differs from the in-order concatenation of the accepted frames (error:{} addr:{:04x} {} bytes)",
                            show_packet(p),
                            model.is_error,
                            model.addr,
                            model.payload().len()
                        ),
                        sig("payload"),
                    );
                }
                sim.probe("completed");
            }
            (Err(PacketBuilderError::MissingFrames), false) => {}
            (other, _) => {
                return fail(
                    prop,
                    "C07.build",
                    format!(
                        "build() returned {:?} with {} of {} frames accepted",
                        other.as_ref().map(show_packet),
                        model.count(),
                        model.announced
                    ),
                    sig(if complete { "build-refuses-complete" } else { "build-accepts-incomplete" }),
                );
            }
        }
        match again {
            Ok(r) if r == s.build => {}
            other => {
                return fail(
                    prop,
                    "C07.build",
                    format!("build() is not repeatable: first {:?}, then {:?}", s.build.as_ref().map(show_packet), other),
                    sig("build-not-repeatable"),
                )
            }
        }
        sim.abstract_state((bucket(model.count() as usize) << 8) | (bucket((model.announced - model.count()) as usize) << 4) | (want_accept as u32));
    }
    if any_rejected {
        sim.probe("frame_rejected");
    }
    if rejected_then_accepted {
        sim.probe("accepted_after_rejection");
    }
    if model.announced > 256 {
        sim.probe("announced_over_256");
    }
    if !first.multi && model.announced > 1 {
        sim.probe("single_start_announcing_more");
    }
    Outcome::Pass
}

fn crash_sig(what: &str, c: &Crash) -> String {
    match c {
        Crash::Panic(m) => format!("{}-panic:{}", what, panic_site(m)),
        Crash::Blocked => format!("{}-blocked", what),
    }
}

fn err_code(e: &PacketBuilderError) -> u64 {
    match e {
        PacketBuilderError::OutOfOrder => 0,
        PacketBuilderError::SingleFramePacket => 1,
        PacketBuilderError::TooManyFrames => 2,
        PacketBuilderError::WrongFrameType => 3,
        PacketBuilderError::DeviceAddressMismatch => 4,
        PacketBuilderError::MissingFrames => 5,
    }
}
