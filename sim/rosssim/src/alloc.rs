//! Counting global allocator with per-allocation domain tags (observation
//! point of C19). Every allocation carries a header naming the domain that was
//! current when it was made: SUT while control is inside a call into
//! ross-protocol, SIM otherwise (simulated devices switch to SIM on entry).
//! `realloc` is deliberately the default allocate-copy-free, so the peak
//! includes both buffers of a growing Vec.
//!
//! Workers are single-threaded; counters are relaxed atomics only to satisfy
//! the `Sync` bound of a global allocator.

use std::alloc::{GlobalAlloc, Layout, System};
use std::sync::atomic::{AtomicIsize, AtomicU8, Ordering::Relaxed};

pub const SIM: u8 = 0;
pub const SUT: u8 = 1;

static DOMAIN: AtomicU8 = AtomicU8::new(SIM);
static SUT_LIVE: AtomicIsize = AtomicIsize::new(0);
static SUT_PEAK: AtomicIsize = AtomicIsize::new(0);
static SUT_ALLOCS: AtomicIsize = AtomicIsize::new(0);
static SUT_MAX_SINGLE: AtomicIsize = AtomicIsize::new(0);

/// The domain control is in right now (SUT while inside a call into ross-protocol).
pub fn domain() -> u8 {
    DOMAIN.load(Relaxed)
}

pub struct Counting;

const HDR: usize = 16;

unsafe impl GlobalAlloc for Counting {
    unsafe fn alloc(&self, layout: Layout) -> *mut u8 {
        let align = layout.align().max(HDR);
        let off = align; // header lives in the `align` bytes before the user pointer
        let total = match layout.size().checked_add(off) {
            Some(t) => t,
            None => return std::ptr::null_mut(),
        };
        let l = match Layout::from_size_align(total, align) {
            Ok(l) => l,
            Err(_) => return std::ptr::null_mut(),
        };
        let base = System.alloc(l);
        if base.is_null() {
            return base;
        }
        let user = base.add(off);
        let dom = DOMAIN.load(Relaxed);
        *(user.sub(1)) = dom;
        if dom == SUT {
            let sz = layout.size() as isize;
            let live = SUT_LIVE.fetch_add(sz, Relaxed) + sz;
            if live > SUT_PEAK.load(Relaxed) {
                SUT_PEAK.store(live, Relaxed);
            }
            if sz > SUT_MAX_SINGLE.load(Relaxed) {
                SUT_MAX_SINGLE.store(sz, Relaxed);
            }
            SUT_ALLOCS.fetch_add(1, Relaxed);
        }
        user
    }

    unsafe fn dealloc(&self, ptr: *mut u8, layout: Layout) {
        let align = layout.align().max(HDR);
        let off = align;
        let dom = *(ptr.sub(1));
        if dom == SUT {
            SUT_LIVE.fetch_sub(layout.size() as isize, Relaxed);
        }
        let l = Layout::from_size_align_unchecked(layout.size() + off, align);
        System.dealloc(ptr.sub(off), l);
    }
}

pub fn set_domain(d: u8) -> u8 {
    DOMAIN.swap(d, Relaxed)
}

pub fn sut_live() -> isize {
    SUT_LIVE.load(Relaxed)
}

/// Resets the peak and largest-single-allocation marks to the current state.
pub fn mark() {
    SUT_PEAK.store(SUT_LIVE.load(Relaxed), Relaxed);
    SUT_MAX_SINGLE.store(0, Relaxed);
}

pub fn sut_peak() -> isize {
    SUT_PEAK.load(Relaxed)
}

pub fn sut_max_single() -> isize {
    SUT_MAX_SINGLE.load(Relaxed)
}

pub fn sut_allocs() -> isize {
    SUT_ALLOCS.load(Relaxed)
}

/// RAII guard: run harness code (devices, handlers) in the SIM domain even
/// when called from inside the SUT.
pub struct SimDomain(u8);

impl SimDomain {
    pub fn enter() -> Self {
        SimDomain(set_domain(SIM))
    }
}

impl Drop for SimDomain {
    fn drop(&mut self) {
        set_domain(self.0);
    }
}
