//! S-LINK (clean): a real sender endpoint, a lossless FIFO wire, a real
//! receiver endpoint, under every polling schedule the tape can express.
//! Decides C13.

use crate::dev::{AnyLink, Dev, LinkKind, RxPolicy, Wire};
use crate::gen::{gen_packet, packet_eq, SizeCfg};
use crate::scenario::{bucket, fail, poll, send, Outcome, Tier};
use crate::sim::{show_packet, Crash, Sim};
use ross_protocol::interface::InterfaceError;
use ross_protocol::packet::Packet;

/// Fixed size pairs of the deterministic would-block sweep.
pub const SWEEP_PAIRS: [(usize, usize); 12] = [
    (0, 0),
    (1, 8),
    (8, 9),
    (9, 9),
    (14, 15),
    (15, 3),
    (22, 0),
    (7, 21),
    (56, 57),
    (16, 13),
    (57, 8),
    (29, 36),
];
pub const SWEEP_BURSTS: [u32; 3] = [1, 2, 50];

pub const MODE_SWEEP: u32 = 7;
pub const N_MODES: u32 = 8;

pub fn schedule_policy(sim: &Sim, mode: u32, kind: LinkKind) -> RxPolicy {
    let rates = [10u32, 50, 1, 90];
    let caps = [3u32, 1, 64, 8];
    let mut p = RxPolicy::eager();
    match mode {
        0 => {}
        1 => {
            p.wb_boundary = sim.pick(&rates);
            p.wb_cap = sim.pick(&caps);
        }
        2 => {
            p.wb_inside = sim.pick(&rates);
            p.wb_cap = sim.pick(&caps);
        }
        3 => {
            p.wb_boundary = sim.pick(&rates);
            p.wb_inside = sim.pick(&rates);
            p.wb_cap = sim.pick(&caps);
        }
        4 => {
            p.trickle = true;
        }
        5 => {
            p.trickle = true;
            p.wb_inside = sim.pick(&rates);
            p.wb_boundary = sim.pick(&rates);
            p.wb_cap = sim.pick(&caps);
        }
        6 => {
            p.wb_boundary = 50;
            p.wb_inside = 50;
            p.wb_cap = 64;
        }
        _ => {}
    }
    if kind == LinkKind::Serial && mode != 0 && mode != MODE_SWEEP {
        p.short_read = sim.pick(&[0u32, 30, 90]);
        p.interrupted = sim.pick(&[0u32, 10, 40]);
    }
    p
}

pub fn run(sim: &Sim, prop: &str, tier: Tier) -> Outcome {
    let kind = LinkKind::from_index(sim.draw(3));
    let mode = sim.draw(N_MODES);
    let wire = Wire::new(kind);
    let back = Wire::new(kind);
    let mut tx = AnyLink::new(kind, Dev::new(sim, "tx", &back, &wire));
    let mut rx = AnyLink::new(kind, Dev::new(sim, "rx", &wire, &back));

    let mut planned: Vec<Packet> = Vec::new();
    if mode == MODE_SWEEP {
        let pair = SWEEP_PAIRS[sim.draw(SWEEP_PAIRS.len() as u32) as usize];
        for (i, len) in [pair.0, pair.1].iter().enumerate() {
            planned.push(Packet {
                is_error: i == 1,
                device_address: 0x0a0b + i as u16,
                data: crate::gen::fill_pattern(6, 17 + i as u32, *len),
            });
        }
    } else {
        wire.borrow_mut().policy = schedule_policy(sim, mode, kind);
        // rarely: one very long "no data yet" burst at one early unit position (on USART
        // inside a frame this is a long wait that must simply be waited out)
        if sim.chance(1) {
            wire.borrow_mut().forced_wb = Some((sim.draw(60) as usize, sim.pick(&[12_000u32, 70_000])));
            sim.probe("long_no_data_burst");
        }
        let max_packets = match tier {
            Tier::Quick => 8,
            Tier::Thorough => 40,
        };
        // swarm: most runs have few packets; rarely a long sequence of small ones
        let long_seq = sim.draw(500) == 499;
        let npk = if long_seq {
            sim.probe("sequence_over_256_packets");
            sim.pick(&[300u32, 257, 520])
        } else if sim.chance(85) {
            1 + sim.draw(max_packets.min(8))
        } else {
            1 + sim.draw(max_packets)
        };
        let sizes = match (tier, sim.draw(50)) {
            (Tier::Quick, 49) => {
                if sim.chance(5) {
                    // the 4096-frame limit is part of every tier, just rare in the quick one
                    SizeCfg { large_pct: 10, huge_pct: 40 }
                } else {
                    SizeCfg { large_pct: 30, huge_pct: 0 }
                }
            }
            (Tier::Thorough, 47..=49) => SizeCfg { large_pct: 20, huge_pct: 10 },
            (Tier::Thorough, 44..=46) => SizeCfg { large_pct: 30, huge_pct: 0 },
            _ => SizeCfg { large_pct: 0, huge_pct: 0 },
        };
        let a = sim.u16_any();
        let b = sim.u16_any();
        for _ in 0..npk {
            if long_seq {
                let len = sim.pick(&[0usize, 1, 8, 9]);
                planned.push(Packet {
                    is_error: false,
                    device_address: a,
                    data: crate::gen::fill_pattern(0, planned.len() as u32, len),
                });
            } else if !planned.is_empty() && sim.chance(10) {
                // the same packet again (identical consecutive packets are legal traffic)
                let again = planned[planned.len() - 1].clone();
                planned.push(again);
                sim.count("identical_consecutive_packets");
            } else {
                planned.push(gen_packet(sim, sizes, &[a, b]));
            }
        }
    }
    let npk = planned.len();
    sim.set_sample(|| {
        format!(
            "link={} schedule_mode={} policy={:?} packets=[{}]",
            kind.name(),
            mode,
            wire.borrow().policy,
            planned.iter().map(show_packet).collect::<Vec<_>>().join(", ")
        )
    });

    // (the device-level reading of "leaves the following ones queued" applies to receivers
    // that do not buffer input internally; see link_hostile::reads_ahead)
    let read_ahead = crate::link_hostile::reads_ahead(kind);
    let mut sent: usize = 0;
    let mut sent_end: Vec<usize> = Vec::new();
    let mut received: usize = 0;
    let sig = |what: &str| format!("{}:{}", kind.name(), what);

    // One poll plus all per-poll clauses. Returns Some(outcome) to stop the run.
    let mut do_poll = |rx: &mut AnyLink, sent: usize, sent_end: &Vec<usize>, received: &mut usize, live: bool| -> Option<Outcome> {
        let out = poll(sim, "rx", rx, &wire);
        match &out.res {
            Err(Crash::Blocked) => {
                return Some(fail(
                    prop,
                    "C13.term",
                    format!("poll #{} on {} never returns (device exhausted, still reading)", sim.steps(), kind.name()),
                    sig("blocked"),
                ))
            }
            Err(Crash::Panic(m)) => {
                return Some(fail(
                    prop,
                    "C13.noerr",
                    format!("receiver panicked on clean traffic: {}", m),
                    sig("panic"),
                ))
            }
            Ok(Err(InterfaceError::NoPacketReceived)) => {
                let start = if *received == 0 { 0 } else { sent_end[*received - 1] };
                if out.cursor_after > start && *received < sent && out.cursor_after < sent_end[*received] {
                    sim.probe("poll_ended_on_partial_packet");
                }
                // once all data has arrived, a poll that delivers nothing must at least have
                // taken input (a receiver may spread a long packet over several polls)
                if live && !read_ahead && out.cursor_after == out.cursor_before {
                    return Some(fail(
                        prop,
                        "C13.live",
                        format!(
                            "all data has arrived and the device no longer answers 'no data yet'; {} packet(s) are outstanding, but the poll reported NoPacketReceived without taking any input",
                            sent - *received
                        ),
                        sig("live"),
                    ));
                }
            }
            Ok(Err(e)) => {
                return Some(fail(
                    prop,
                    "C13.noerr",
                    format!("spurious error on clean traffic: {:?} (after {} of {} packets)", e, *received, sent),
                    sig("spurious-error"),
                ))
            }
            Ok(Ok(p)) => {
                if *received >= sent {
                    return Some(fail(
                        prop,
                        "C13.seq",
                        format!("receiver returned a packet that was never sent: {}", show_packet(p)),
                        sig("extra-packet"),
                    ));
                }
                let want = &planned[*received];
                if !packet_eq(p, want) {
                    return Some(fail(
                        prop,
                        "C13.seq",
                        format!(
                            "packet #{} differs: sent {} received {}",
                            *received,
                            show_packet(want),
                            show_packet(p)
                        ),
                        sig("packet-differs"),
                    ));
                }
                if !read_ahead && out.cursor_after != sent_end[*received] {
                    return Some(fail(
                        prop,
                        "C13.one",
                        format!(
                            "poll returned packet #{} after taking {} units from the device, but packets 0..={} occupy exactly {} units",
                            *received, out.cursor_after, *received, sent_end[*received]
                        ),
                        sig("units"),
                    ));
                }
                if wire.borrow().in_flight() > 0 {
                    sim.probe("packets_queued_at_return");
                }
                *received += 1;
            }
        }
        let st = {
            let w = wire.borrow();
            let start = if *received == 0 { 0 } else { sent_end[*received - 1] };
            let phase = if w.cursor <= start { 0 } else { 1 + bucket(w.cursor - start) };
            (phase << 8) | (bucket(w.in_flight()) << 4) | (matches!(out.res, Ok(Ok(_))) as u32)
        };
        sim.abstract_state(st);
        None
    };

    // ---- phase A: sends interleaved with polls, all under the drawn schedule
    let mut consecutive_polls = 0;
    while sent < npk {
        let act_poll = consecutive_polls < 6 && sim.draw(3) != 0;
        if act_poll {
            consecutive_polls += 1;
            if let Some(o) = do_poll(&mut rx, sent, &sent_end, &mut received, false) {
                return o;
            }
        } else {
            consecutive_polls = 0;
            let p = &planned[sent];
            match send(sim, "tx", &mut tx, p) {
                Ok(Ok(())) => {}
                Ok(Err(e)) => {
                    return fail(
                        prop,
                        "C13.send",
                        format!("sender failed on a benign device: {:?} for {}", e, show_packet(p)),
                        sig("send-error"),
                    )
                }
                Err(c) => {
                    return fail(
                        prop,
                        "C13.send",
                        format!("sender crashed on a benign device: {:?} for {}", c, show_packet(p)),
                        sig("send-crash"),
                    )
                }
            }
            if p.data.len() > 8 {
                sim.probe("multi_frame_packet");
            }
            if p.data.len() > 1785 {
                sim.probe("frame_id_over_255");
            }
            if p.data.len() > 28665 {
                sim.probe("packet_4096_frames");
            }
            sent += 1;
            sent_end.push(wire.borrow().len());
        }
    }

    if mode == MODE_SWEEP {
        // the sweep's single fault: a would-block burst at one unit position
        let units = wire.borrow().len();
        sim.count_n("sweep_units", units as u64);
        let pos = sim.draw(units as u32) as usize;
        let burst = SWEEP_BURSTS[sim.draw(SWEEP_BURSTS.len() as u32) as usize];
        wire.borrow_mut().forced_wb = Some((pos, burst));
        sim.probe("sweep_case");
    }

    // ---- phase A': more polls under the schedule
    let total_frames: usize = planned.iter().map(|p| if p.data.len() <= 8 { 1 } else { (p.data.len() - 1) / 7 + 1 }).sum();
    let extra = if mode == MODE_SWEEP {
        60
    } else {
        sim.draw((2 * total_frames as u32 + 3).min(200))
    };
    for _ in 0..extra {
        if received == npk && mode != MODE_SWEEP {
            break;
        }
        if let Some(o) = do_poll(&mut rx, sent, &sent_end, &mut received, false) {
            return o;
        }
    }

    // ---- phase B (liveness): data has arrived, no more "no data yet"
    wire.borrow_mut().drain = true;
    // every poll now either delivers a packet or takes input: bounded by packets + frames
    let mut budget = (npk - received) + total_frames + 2;
    while received < npk && budget > 0 {
        budget -= 1;
        if let Some(o) = do_poll(&mut rx, sent, &sent_end, &mut received, true) {
            return o;
        }
    }
    if received != npk {
        return fail(
            prop,
            "C13.seq",
            format!("{} packets sent, {} received at quiescence", npk, received),
            sig("count"),
        );
    }
    // the poll after the last packet reports nothing
    if let Some(o) = do_poll(&mut rx, sent, &sent_end, &mut received, false) {
        return o;
    }
    if wire.borrow().in_flight() != 0 {
        return fail(
            prop,
            "C13.one",
            format!("{} units left on the wire after all packets were returned", wire.borrow().in_flight()),
            sig("leftover"),
        );
    }
    let w = wire.borrow();
    if w.wb_inside_seen > 0 {
        sim.probe("wouldblock_inside_frame");
    }
    if npk >= 2 {
        sim.probe("multi_packet_sequence");
    }
    Outcome::Pass
}
