//! S-LINK (clean): a real sender endpoint, a lossless FIFO wire, a real
//! receiver endpoint, under every polling schedule the tape can express.
//! Decides C13.

use crate::dev::{AnyLink, Dev, LinkKind, RxPolicy, Wire};
use crate::gen::{gen_packet, packet_eq, SizeCfg};
use crate::scenario::{bucket, fail, poll, Outcome, Tier};
use crate::sim::{show_packet, Crash, Sim};
use ross_protocol::interface::InterfaceError;
use ross_protocol::packet::Packet;

/// Fixed size pairs of the deterministic would-block sweep.
pub const SWEEP_PAIRS: [(usize, usize); 12] = [
    (0, 0),
    (1, 8),
    (8, 9),
    (9, 9),
    (14, 15),
    (15, 3),
    (22, 0),
    (7, 21),
    (56, 57),
    (16, 13),
    (57, 8),
    (29, 36),
];
pub const SWEEP_BURSTS: [u32; 3] = [1, 2, 50];

pub const MODE_SWEEP: u32 = 7;
pub const N_MODES: u32 = 8;

pub fn schedule_policy(sim: &Sim, mode: u32, kind: LinkKind) -> RxPolicy {
    let rates = [10u32, 50, 1, 90];
    let caps = [3u32, 1, 64, 8];
    let mut p = RxPolicy::eager();
    match mode {
        0 => {}
        1 => {
            p.wb_boundary = sim.pick(&rates);
            p.wb_cap = sim.pick(&caps);
        }
        2 => {
            p.wb_inside = sim.pick(&rates);
            p.wb_cap = sim.pick(&caps);
        }
        3 => {
            p.wb_boundary = sim.pick(&rates);
            p.wb_inside = sim.pick(&rates);
            p.wb_cap = sim.pick(&caps);
        }
        4 => {
            p.trickle = true;
        }
        5 => {
            p.trickle = true;
            p.wb_inside = sim.pick(&rates);
            p.wb_boundary = sim.pick(&rates);
            p.wb_cap = sim.pick(&caps);
        }
        6 => {
            p.wb_boundary = 50;
            p.wb_inside = 50;
            p.wb_cap = 64;
        }
        _ => {}
    }
    if kind == LinkKind::Serial && mode != 0 && mode != MODE_SWEEP {
        p.short_read = sim.pick(&[0u32, 30, 90]);
        p.interrupted = sim.pick(&[0u32, 10, 40]);
        p.idle_ok0 = sim.pick(&[0u32, 0, 30]);
    }
    p
}

/// One direction of the link: what the sending endpoint writes and what the receiving
/// endpoint has returned so far.
struct Dir {
    /// the sending device of this direction fails writes / flushes (or reports displaced
    /// frames): its sends may fail and what they leave on the wire is not judged - the point
    /// is that the *other* direction, received by the same link object, stays transparent
    unjudged: bool,
    name: &'static str,
    wire: crate::dev::WireRef,
    planned: Vec<Packet>,
    sent: usize,
    sent_end: Vec<usize>,
    received: usize,
    /// device position at the end of the last poll of this direction
    last_cursor: usize,
    /// units of this direction left the device *between* polls: the receiving link object
    /// consumes input outside try_get_packet (e.g. its send path parks received bytes while
    /// the transmitter is busy). Device-level observations are then no oracle input any more
    /// (as for receivers that read ahead, see link_hostile::reads_ahead).
    taken_outside_polls: bool,
}

fn frames_of_len(len: usize) -> usize {
    if len <= 8 {
        1
    } else {
        (len - 1) / 7 + 1
    }
}

pub fn run(sim: &Sim, prop: &str, tier: Tier) -> Outcome {
    let kind = LinkKind::from_index(sim.draw(3));
    let mode = sim.draw(N_MODES);
    // endpoint 0 sends direction 0 and receives direction 1; endpoint 1 the other way round
    let w01 = Wire::new(kind);
    let w10 = Wire::new(kind);
    let mut ep0 = AnyLink::new(kind, Dev::new(sim, "e0", &w10, &w01));
    let mut ep1 = AnyLink::new(kind, Dev::new(sim, "e1", &w01, &w10));

    // swarm (serial port): an OS-buffered port - what a sender writes reaches the peer only
    // once a flush has succeeded
    if kind == LinkKind::Serial && mode != MODE_SWEEP && sim.flag() {
        w01.borrow_mut().hold_until_flush = true;
        w10.borrow_mut().hold_until_flush = true;
        sim.count("serial_output_held_until_flush");
    }
    let mut planned: Vec<Packet> = Vec::new();
    let mut planned_back: Vec<Packet> = Vec::new();
    let mut long_burst: u32 = 0;
    let mut reverse_fails = false;
    if mode == MODE_SWEEP {
        let pair = SWEEP_PAIRS[sim.draw(SWEEP_PAIRS.len() as u32) as usize];
        for (i, len) in [pair.0, pair.1].iter().enumerate() {
            planned.push(Packet {
                is_error: i == 1,
                device_address: 0x0a0b + i as u16,
                data: crate::gen::fill_pattern(6, 17 + i as u32, *len),
            });
        }
    } else {
        w01.borrow_mut().policy = schedule_policy(sim, mode, kind);
        // rarely: one very long "no data yet" burst at one early unit position (on USART
        // inside a frame this is a long wait that must simply be waited out; between two
        // frames of a packet it is a long pause during which the partial packet must be kept)
        if sim.chance(1) {
            long_burst = sim.pick(&[12_000u32, 70_000, 150_000]);
            w01.borrow_mut().forced_wb = Some((sim.draw(60) as usize, long_burst));
            sim.probe("long_no_data_burst");
        }
        let max_packets = match tier {
            Tier::Quick => 8,
            Tier::Thorough => 40,
        };
        // swarm: most runs have few packets; rarely a long sequence of small ones
        let long_seq = sim.draw(500) == 499;
        let npk = if long_seq {
            sim.probe("sequence_over_256_packets");
            sim.pick(&[300u32, 257, 520])
        } else if sim.chance(85) {
            1 + sim.draw(max_packets.min(8))
        } else {
            1 + sim.draw(max_packets)
        };
        let sizes = match (tier, sim.draw(50)) {
            (Tier::Quick, 49) => {
                if sim.chance(5) {
                    // the 4096-frame limit is part of every tier, just rare in the quick one
                    SizeCfg { large_pct: 10, huge_pct: 40 }
                } else {
                    SizeCfg { large_pct: 30, huge_pct: 0 }
                }
            }
            (Tier::Thorough, 47..=49) => SizeCfg { large_pct: 20, huge_pct: 10 },
            (Tier::Thorough, 44..=46) => SizeCfg { large_pct: 30, huge_pct: 0 },
            _ => SizeCfg { large_pct: 0, huge_pct: 0 },
        };
        let a = sim.u16_any();
        let b = sim.u16_any();
        for _ in 0..npk {
            if long_seq {
                let len = sim.pick(&[0usize, 1, 8, 9]);
                planned.push(Packet {
                    is_error: false,
                    device_address: a,
                    data: crate::gen::fill_pattern(0, planned.len() as u32, len),
                });
            } else if !planned.is_empty() && sim.chance(10) {
                // the same packet again (identical consecutive packets are legal traffic)
                let again = planned[planned.len() - 1].clone();
                planned.push(again);
                sim.count("identical_consecutive_packets");
            } else if !planned.is_empty() && sim.chance(8) {
                // the previous packet with one thing changed (flag, address, one byte, length)
                let mut p = planned[planned.len() - 1].clone();
                match sim.draw(4) {
                    0 => p.is_error = !p.is_error,
                    1 => p.device_address = p.device_address.wrapping_add(1),
                    2 => {
                        if let Some(x) = p.data.last_mut() {
                            *x ^= 1;
                        }
                    }
                    _ => {
                        if p.data.len() < 28672 {
                            p.data.push(0x33);
                        }
                    }
                }
                planned.push(p);
                sim.count("nearly_identical_consecutive_packets");
            } else {
                planned.push(gen_packet(sim, sizes, &[a, b]));
            }
        }
        // duplex: the receiving endpoint also transmits, the sending endpoint also receives
        if !long_seq && sim.chance(40) {
            w10.borrow_mut().policy = schedule_policy(sim, mode, kind);
            let nback = 1 + sim.draw(4);
            for _ in 0..nback {
                planned_back.push(gen_packet(sim, SizeCfg { large_pct: 0, huge_pct: 0 }, &[a, b]));
            }
            sim.probe("duplex_traffic");
            // swarm: back-pressure on the transmit side of both endpoints (delays only)
            if sim.chance(40) {
                for w in [&w01, &w10] {
                    let mut w = w.borrow_mut();
                    match kind {
                        LinkKind::Serial => {
                            w.tx.short = sim.pick(&[30u32, 90, 0]);
                            w.tx.interrupted = sim.pick(&[0u32, 10, 40]);
                        }
                        _ => {
                            w.tx.wb = sim.pick(&[10u32, 50, 90]);
                            w.tx.wb_burst = sim.pick(&[1u32, 3, 50]);
                        }
                    }
                }
                sim.probe("duplex_with_transmit_back_pressure");
            }
            // swarm: the device under the receiving endpoint fails some of that endpoint's own
            // sends (write / flush errors on the serial port, displaced frames on CAN). Those
            // sends may fail and the reverse direction is then not judged; what the endpoint
            // *receives* must stay exactly the sequence sent to it.
            if kind != LinkKind::Usart && sim.chance(25) {
                let mut w = w10.borrow_mut();
                match kind {
                    LinkKind::Serial => {
                        w.tx.hard = sim.pick(&[5u32, 30, 0]);
                        w.tx.flush_err = sim.pick(&[50u32, 20, 100]);
                        w.tx.flush_intr = sim.pick(&[0u32, 50]);
                        w.tx.flush_intr_cap = 3;
                    }
                    _ => {
                        w.tx.displaced = sim.pick(&[10u32, 50]);
                    }
                }
                reverse_fails = true;
                sim.probe("duplex_with_failing_sends_of_the_receiving_endpoint");
            }
        }
    }
    sim.set_sample(|| {
        format!(
            "link={} schedule_mode={} policy={:?} packets=[{}] reverse=[{}]",
            kind.name(),
            mode,
            w01.borrow().policy,
            planned.iter().map(show_packet).collect::<Vec<_>>().join(", "),
            planned_back.iter().map(show_packet).collect::<Vec<_>>().join(", ")
        )
    });

    // (the device-level reading of "leaves the following ones queued" applies to receivers
    // that do not buffer input internally; see link_hostile::reads_ahead)
    let read_ahead = crate::link_hostile::reads_ahead(kind);
    let sig = |what: &str| format!("{}:{}", kind.name(), what);
    let mut dirs = [
        Dir { unjudged: false, name: "e0->e1", wire: w01.clone(), planned, sent: 0, sent_end: Vec::new(), received: 0, last_cursor: 0, taken_outside_polls: false },
        Dir { unjudged: reverse_fails, name: "e1->e0", wire: w10.clone(), planned: planned_back, sent: 0, sent_end: Vec::new(), received: 0, last_cursor: 0, taken_outside_polls: false },
    ];

    // One poll of the receiving endpoint of direction `d` plus all per-poll clauses.
    let do_poll = |rx: &mut AnyLink, d: &mut Dir, live: bool| -> Option<Outcome> {
        let who = if d.name == "e0->e1" { "e1" } else { "e0" };
        let out = poll(sim, who, rx, &d.wire);
        if out.cursor_before != d.last_cursor && !d.taken_outside_polls {
            d.taken_outside_polls = true;
            sim.count("input_taken_outside_polls");
        }
        d.last_cursor = out.cursor_after;
        let read_ahead = read_ahead || d.taken_outside_polls;
        match &out.res {
            Err(Crash::Blocked) => {
                return Some(fail(
                    prop,
                    "C13.term",
                    format!("poll #{} on {} never returns (device exhausted, still reading)", sim.steps(), kind.name()),
                    sig("blocked"),
                ))
            }
            Err(Crash::Panic(m)) => {
                return Some(fail(
                    prop,
                    "C13.noerr",
                    format!("receiver panicked on clean traffic: {}", m),
                    sig("panic"),
                ))
            }
            Ok(Err(InterfaceError::NoPacketReceived)) => {
                let start = if d.received == 0 { 0 } else { d.sent_end[d.received - 1] };
                if out.cursor_after > start && d.received < d.sent && out.cursor_after < d.sent_end[d.received] {
                    sim.probe("poll_ended_on_partial_packet");
                }
                // once all data has arrived, a poll that delivers nothing must at least have
                // taken input (a receiver may spread a long packet over several polls)
                if live && !read_ahead && out.cursor_after == out.cursor_before {
                    return Some(fail(
                        prop,
                        "C13.live",
                        format!(
                            "all data has arrived and the device no longer answers 'no data yet'; {} packet(s) are outstanding ({}), but the poll reported NoPacketReceived without taking any input",
                            d.sent - d.received,
                            d.name
                        ),
                        sig("live"),
                    ));
                }
            }
            Ok(Err(e)) => {
                return Some(fail(
                    prop,
                    "C13.noerr",
                    format!("spurious error on clean traffic: {:?} (after {} of {} packets, {})", e, d.received, d.sent, d.name),
                    sig("spurious-error"),
                ))
            }
            Ok(Ok(p)) => {
                if d.received >= d.sent {
                    return Some(fail(
                        prop,
                        "C13.seq",
                        format!("receiver returned a packet that was never sent ({}): {}", d.name, show_packet(p)),
                        sig("extra-packet"),
                    ));
                }
                let want = &d.planned[d.received];
                if !packet_eq(p, want) {
                    return Some(fail(
                        prop,
                        "C13.seq",
                        format!(
                            "packet #{} ({}) differs: sent {} received {}",
                            d.received,
                            d.name,
                            show_packet(want),
                            show_packet(p)
                        ),
                        sig("packet-differs"),
                    ));
                }
                if !read_ahead && out.cursor_after != d.sent_end[d.received] {
                    return Some(fail(
                        prop,
                        "C13.one",
                        format!(
                            "poll returned packet #{} after taking {} units from the device, but packets 0..={} occupy exactly {} units ({})",
                            d.received, out.cursor_after, d.received, d.sent_end[d.received], d.name
                        ),
                        sig("units"),
                    ));
                }
                if d.wire.borrow().in_flight() > 0 {
                    sim.probe("packets_queued_at_return");
                }
                d.received += 1;
            }
        }
        if d.name == "e0->e1" {
            let st = {
                let w = d.wire.borrow();
                let start = if d.received == 0 { 0 } else { d.sent_end[d.received - 1] };
                let phase = if w.cursor <= start { 0 } else { 1 + bucket(w.cursor - start) };
                (phase << 8) | (bucket(w.in_flight()) << 4) | (matches!(out.res, Ok(Ok(_))) as u32)
            };
            sim.abstract_state(st);
        }
        None
    };

    let (w01_for_send, w10_for_send) = (w01.clone(), w10.clone());
    let do_send = |tx: &mut AnyLink, d: &mut Dir| -> Option<Outcome> {
        let who = if d.name == "e0->e1" { "e0" } else { "e1" };
        let p = &d.planned[d.sent];
        // (the sending endpoint receives from the other direction's wire)
        let rxw = if d.name == "e0->e1" { &w10_for_send } else { &w01_for_send };
        match crate::scenario::send_on(sim, who, tx, p, rxw) {
            Ok(Ok(())) => {}
            Ok(Err(_)) if d.unjudged => {
                sim.count("send_of_the_receiving_endpoint_failed");
            }
            Ok(Err(e)) => {
                return Some(fail(
                    prop,
                    "C13.send",
                    format!("sender failed on a benign device: {:?} for {}", e, show_packet(p)),
                    sig("send-error"),
                ))
            }
            Err(c) => {
                return Some(fail(
                    prop,
                    "C13.send",
                    format!("sender crashed on a benign device: {:?} for {}", c, show_packet(p)),
                    sig("send-crash"),
                ))
            }
        }
        if p.data.len() > 8 {
            sim.probe("multi_frame_packet");
        }
        if p.data.len() > 1785 {
            sim.probe("frame_id_over_255");
        }
        if p.data.len() > 28665 {
            sim.probe("packet_4096_frames");
        }
        d.sent += 1;
        d.sent_end.push(d.wire.borrow().len());
        None
    };

    // ---- phase A: sends interleaved with polls in both directions, under the drawn schedule
    let mut consecutive_polls = 0;
    while dirs[0].sent < dirs[0].planned.len() || dirs[1].sent < dirs[1].planned.len() {
        let (d0, d1) = dirs.split_at_mut(1);
        let (d0, d1) = (&mut d0[0], &mut d1[0]);
        let can0 = d0.sent < d0.planned.len();
        let can1 = d1.sent < d1.planned.len();
        let act = if consecutive_polls >= 6 { 0 } else { sim.draw(3) };
        let o = match act {
            0 => {
                consecutive_polls = 0;
                // which endpoint sends next
                if can0 && (!can1 || sim.draw(3) != 2) {
                    do_send(&mut ep0, d0)
                } else {
                    do_send(&mut ep1, d1)
                }
            }
            1 => {
                consecutive_polls += 1;
                do_poll(&mut ep1, d0, false)
            }
            _ => {
                consecutive_polls += 1;
                if d1.planned.is_empty() || d1.unjudged {
                    do_poll(&mut ep1, d0, false)
                } else {
                    do_poll(&mut ep0, d1, false)
                }
            }
        };
        if let Some(o) = o {
            return o;
        }
    }

    if mode == MODE_SWEEP {
        // the sweep's single fault: a would-block burst at one unit position
        let units = w01.borrow().len();
        sim.count_n("sweep_units", units as u64);
        let pos = sim.draw(units as u32) as usize;
        let burst = SWEEP_BURSTS[sim.draw(SWEEP_BURSTS.len() as u32) as usize];
        w01.borrow_mut().forced_wb = Some((pos, burst));
        sim.probe("sweep_case");
    }

    // ---- phase A': more polls under the schedule
    let total_frames: usize = dirs[0].planned.iter().map(|p| frames_of_len(p.data.len())).sum();
    let back_frames: usize = dirs[1].planned.iter().map(|p| frames_of_len(p.data.len())).sum();
    let extra = if mode == MODE_SWEEP {
        60
    } else if long_burst > 0 {
        // a long pause between two frames shows up as that many empty polls: sit it out
        long_burst + 100
    } else {
        sim.draw((2 * (total_frames + back_frames) as u32 + 3).min(200))
    };
    for k in 0..extra {
        let (d0, d1) = dirs.split_at_mut(1);
        let (d0, d1) = (&mut d0[0], &mut d1[0]);
        let all = d0.received == d0.planned.len() && (d1.unjudged || d1.received == d1.planned.len());
        if all && mode != MODE_SWEEP {
            break;
        }
        let o = if d1.planned.is_empty() || d1.unjudged || k % 2 == 0 {
            do_poll(&mut ep1, d0, false)
        } else {
            do_poll(&mut ep0, d1, false)
        };
        if let Some(o) = o {
            return o;
        }
    }

    // ---- phase B (liveness): data has arrived, no more "no data yet"
    w01.borrow_mut().drain = true;
    w10.borrow_mut().drain = true;
    for di in 0..2 {
        let frames = if di == 0 { total_frames } else { back_frames };
        let d = &mut dirs[di];
        if d.unjudged {
            continue;
        }
        // every poll now either delivers a packet or takes input: bounded by packets + frames
        let mut budget = (d.planned.len() - d.received) + frames + 2;
        while d.received < d.planned.len() && budget > 0 {
            budget -= 1;
            let o = if di == 0 { do_poll(&mut ep1, d, true) } else { do_poll(&mut ep0, d, true) };
            if let Some(o) = o {
                return o;
            }
        }
        if d.received != d.planned.len() {
            return fail(
                prop,
                "C13.seq",
                format!("{} packets sent, {} received at quiescence ({})", d.planned.len(), d.received, d.name),
                sig("count"),
            );
        }
        // the poll after the last packet reports nothing
        let o = if di == 0 { do_poll(&mut ep1, d, false) } else { do_poll(&mut ep0, d, false) };
        if let Some(o) = o {
            return o;
        }
        if d.wire.borrow().in_flight() != 0 {
            return fail(
                prop,
                "C13.one",
                format!("{} units left on the wire after all packets were returned ({})", d.wire.borrow().in_flight(), d.name),
                sig("leftover"),
            );
        }
    }
    if w01.borrow().wb_inside_seen + w10.borrow().wb_inside_seen > 0 {
        sim.probe("wouldblock_inside_frame");
    }
    if dirs[0].planned.len() >= 2 {
        sim.probe("multi_packet_sequence");
    }
    Outcome::Pass
}
