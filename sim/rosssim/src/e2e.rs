//! S-E2E: two real nodes (`Protocol` over the real CAN / USART / serial-port
//! interface) joined by a simulated reliable wire in each direction. Events of
//! all 16 kinds travel encode -> fragment -> frame encoding -> link -> frame
//! decoding -> reassembly -> address filter -> handler -> decode. Decides C01.

use crate::dev::{Dev, LinkKind, Wire};
use ross_protocol::interface::Interface;
use crate::events::{gen_event, AnyEvent, KIND_NAMES, N_KINDS};
use crate::gen::{packet_eq, SizeCfg};
use crate::link_clean::schedule_policy;
use crate::link_hostile::panic_site;
use crate::scenario::{bucket, fail, Outcome, Tier, EV_APP};
use crate::sim::{hash_packet, show_packet, sut, Crash, Sim};
use ross_protocol::event::general::AckEvent;
use ross_protocol::packet::Packet;
use ross_protocol::protocol::{Protocol, ProtocolError, BROADCAST_ADDRESS};
use std::cell::RefCell;
use std::rc::Rc;


thread_local! {
    static DEPTH: std::cell::Cell<u32> = std::cell::Cell::new(0);
}

#[derive(Default)]
struct Shared {
    /// per handler (index) the packets it saw, in order
    logs: Vec<Vec<Packet>>,
    /// acknowledgements transmitted by handlers (B -> A), in order, with the link result
    acks: Vec<(Packet, AnyEvent, bool)>,
}

struct HandlerCfg {
    capture_all: bool,
    acks: bool,
    /// the reply is a multi-frame data event instead of a single-frame acknowledgement (the
    /// replying node then transmits while its peer's next frames arrive, and the peer may
    /// hold a partial reply while it transmits its next event)
    long_reply: bool,
    /// unregistered again before the first event was sent: must observe nothing
    removed: bool,
}

fn mk_handler<I: Interface + 'static>(sim: &Sim, node: &'static str, idx: usize, cfg: &HandlerCfg, own: u16, reply_to: u16, sh: &Rc<RefCell<Shared>>) -> Box<dyn FnMut(&Packet, &mut Protocol<'static, I>)> {
    let sim = sim.clone();
    let sh = sh.clone();
    let acks = cfg.acks;
    let long_reply = cfg.long_reply;
    Box::new(move |p: &Packet, proto: &mut Protocol<'static, I>| {
        let _g = crate::alloc::SimDomain::enter();
        sim.event(31, idx as u64, hash_packet(p), || format!("{}.handler[{}] called with {}", node, idx, show_packet(p)));
        sh.borrow_mut().logs[idx].push(p.clone());
        // bounded re-entrance: a defect that loops a handler's own transmission back into
        // the handlers must show up as a wrong observation, not as a stack overflow
        let depth = DEPTH.with(|d| d.get());
        if acks && depth < 3 {
            DEPTH.with(|d| d.set(depth + 1));
            let n = sh.borrow().acks.len() as u16;
            let any = if long_reply {
                let len = 20 + (n % 23) as usize;
                AnyEvent::Data(ross_protocol::event::general::DataEvent {
                    receiver_address: reply_to,
                    transmitter_address: own ^ n.wrapping_mul(0x0101),
                    data_len: len as u16,
                    data: crate::gen::fill_pattern(0, n as u32, len),
                })
            } else {
                AnyEvent::Ack(AckEvent {
                    receiver_address: reply_to,
                    // unique per acknowledgement, so that every one is attributable
                    transmitter_address: own ^ n.wrapping_mul(0x0101),
                })
            };
            if let Ok(pkt) = any.to_packet(0) {
                let prev = crate::alloc::set_domain(crate::alloc::SUT);
                let r = proto.send_packet(&pkt);
                crate::alloc::set_domain(prev);
                sim.count("handler_sent_from_delivery");
                sh.borrow_mut().acks.push((pkt, any, r.is_ok()));
            }
            DEPTH.with(|d| d.set(depth));
        }
    })
}

fn show_tick(r: &Result<Result<(), ProtocolError>, Crash>) -> String {
    match r {
        Ok(Ok(())) => "Ok".into(),
        Ok(Err(e)) => format!("Err({:?})", e),
        Err(c) => format!("{:?}", c),
    }
}

/// The nodes are `Protocol` over the *concrete* link types (no wrapper type between the
/// protocol and the link: whatever the two agree on through the `Interface` trait, provided
/// methods included, is what runs).
pub fn run(sim: &Sim, prop: &str, tier: Tier) -> Outcome {
    // (an earlier run of this worker may have been unwound out of a handler)
    DEPTH.with(|d| d.set(0));
    let kind = LinkKind::from_index(sim.draw(3));
    match kind {
        LinkKind::Usart => run_on(sim, prop, tier, kind, |d| ross_protocol::interface::usart::Usart::new(d)),
        LinkKind::Can => run_on(sim, prop, tier, kind, |d| ross_protocol::interface::can::Can::new(bxcan::Can::new(d))),
        LinkKind::Serial => run_on(sim, prop, tier, kind, |d| ross_protocol::interface::serial::Serial::new(Box::new(d))),
    }
}

fn run_on<I: Interface + 'static>(sim: &Sim, prop: &str, tier: Tier, kind: LinkKind, mk_link: impl Fn(Dev) -> I) -> Outcome {
    let mode = sim.draw(7);
    // addresses: distinct, or both broadcast
    let a = match sim.draw(7) {
        6 => sim.u16_any(),
        5 => sim.pick(&[0xfffeu16, 0x7fff, 0xff00, 0x8000]),
        k => [0x0101u16, 0x0001, 0xffff, 0x0000, 0xab00][k as usize],
    };
    let mut b = match sim.draw(7) {
        6 => sim.u16_any(),
        5 => sim.pick(&[0xfffeu16, 0x7fff, 0xff00, 0x8000]),
        k => [0x0202u16, 0xffff, 0x0000, 0x00ff, 0x0100][k as usize],
    };
    if a == b && a != BROADCAST_ADDRESS {
        b ^= 0x0030;
    }
    let third = {
        let mut t = sim.pick(&[0x0303u16, 0x0000, 0xfffe, 0x7777]);
        while t == a || t == b || t == BROADCAST_ADDRESS {
            t = t.wrapping_add(0x0111);
        }
        t
    };
    let ab = Wire::new(kind);
    let ba = Wire::new(kind);
    ab.borrow_mut().policy = schedule_policy(sim, mode, kind);
    ba.borrow_mut().policy = schedule_policy(sim, mode, kind);
    // swarm (serial port): an OS-buffered port - what a node writes reaches the peer only once
    // a flush has succeeded
    if kind == LinkKind::Serial && sim.flag() {
        ab.borrow_mut().hold_until_flush = true;
        ba.borrow_mut().hold_until_flush = true;
        sim.count("serial_output_held_until_flush");
    }
    // swarm: back-pressure on the transmit side (would-block, partial writes, Interrupted) - a
    // device that delays but never fails; events must still arrive intact
    if sim.chance(30) {
        for w in [&ab, &ba] {
            let mut w = w.borrow_mut();
            match kind {
                LinkKind::Serial => {
                    w.tx.short = sim.pick(&[30u32, 90, 0]);
                    w.tx.interrupted = sim.pick(&[0u32, 10, 40]);
                }
                _ => {
                    w.tx.wb = sim.pick(&[10u32, 50, 90]);
                    w.tx.wb_burst = sim.pick(&[1u32, 3, 50]);
                }
            }
        }
        sim.probe("transmit_back_pressure");
    }
    // swarm: one long "no data yet" pause at an early position of the A -> B stream (between two
    // frames it shows up as that many empty ticks, during which a partial packet must be kept)
    let mut long_pause: u32 = 0;
    if sim.chance(1) {
        long_pause = sim.pick(&[300u32, 300, 2000, 12_000]);
        ab.borrow_mut().forced_wb = Some((sim.draw(60) as usize, long_pause));
        sim.probe("long_no_data_pause");
    }
    let mut na: Protocol<'static, I> = Protocol::new(a, mk_link(Dev::new(sim, "A", &ba, &ab)));
    let mut nb: Protocol<'static, I> = Protocol::new(b, mk_link(Dev::new(sim, "B", &ab, &ba)));

    // ---- handler tables
    let both_broadcast = a == b;
    // (a node whose own address is the broadcast address also hands its own broadcasts to its
    // local handlers; to keep those observations apart from replies, such a node gets no replies)
    let acking = !both_broadcast && a != BROADCAST_ADDRESS && sim.chance(33);
    let sh_a: Rc<RefCell<Shared>> = Rc::new(RefCell::new(Shared::default()));
    let sh_b: Rc<RefCell<Shared>> = Rc::new(RefCell::new(Shared::default()));
    let mut cfg_a: Vec<HandlerCfg> = Vec::new();
    let mut cfg_b: Vec<HandlerCfg> = Vec::new();
    let n_b = sim.draw(5) as usize;
    for i in 0..n_b {
        let c = HandlerCfg {
            capture_all: sim.flag(),
            acks: acking && sim.chance(60),
            long_reply: sim.chance(40),
            removed: false,
        };
        sh_b.borrow_mut().logs.push(Vec::new());
        let h = mk_handler(sim, "B", i, &c, b, a, &sh_b);
        if !matches!(sut(|| nb.add_packet_handler(h, c.capture_all)), Ok(Ok(_))) {
            return Outcome::Foreign("C17.unique", "add_packet_handler failed".into());
        }
        cfg_b.push(c);
    }
    // swarm: the receiving node's handler table has a history - a large table, some handlers
    // unregistered again (from the middle, near the 32nd / 64th entry), others registered after
    // that - all before the first event is sent. Handlers removed must observe nothing, all
    // others everything addressed to them.
    if sim.draw(40) == 39 {
        let n_bulk = sim.pick(&[34usize, 36, 40, 66]);
        let mut ids: Vec<(usize, u32)> = Vec::new();
        for _ in 0..n_bulk {
            let i = cfg_b.len();
            let c = HandlerCfg { capture_all: sim.chance(30), acks: false, long_reply: false, removed: false };
            sh_b.borrow_mut().logs.push(Vec::new());
            let h = mk_handler(sim, "B", i, &c, b, a, &sh_b);
            match sut(|| nb.add_packet_handler(h, c.capture_all)) {
                Ok(Ok(id)) => ids.push((i, id)),
                _ => return Outcome::Foreign("C17.unique", "add_packet_handler failed".into()),
            }
            cfg_b.push(c);
        }
        let n_rm = 1 + sim.draw(3) as usize;
        for _ in 0..n_rm {
            let k = sim.pick(&[ids.len() - 2, 32, 33, ids.len() / 2, 1, ids.len() - 1, 31]).min(ids.len() - 1);
            let (idx, id) = ids.remove(k);
            if !matches!(sut(|| nb.remove_packet_handler(id)), Ok(Ok(()))) {
                return Outcome::Foreign("C17.remove", "remove_packet_handler of a registered id failed".into());
            }
            cfg_b[idx].removed = true;
        }
        let n_add = 1 + sim.draw(3) as usize;
        for _ in 0..n_add {
            let i = cfg_b.len();
            let c = HandlerCfg { capture_all: sim.flag(), acks: false, long_reply: false, removed: false };
            sh_b.borrow_mut().logs.push(Vec::new());
            let h = mk_handler(sim, "B", i, &c, b, a, &sh_b);
            if !matches!(sut(|| nb.add_packet_handler(h, c.capture_all)), Ok(Ok(_))) {
                return Outcome::Foreign("C17.unique", "add_packet_handler failed".into());
            }
            cfg_b.push(c);
        }
        sim.probe("receiver_table_with_history");
    }
    let n_a = if acking { 1 + sim.draw(3) as usize } else { sim.draw(2) as usize };
    for i in 0..n_a {
        let c = HandlerCfg {
            capture_all: sim.flag(),
            acks: false,
            long_reply: false,
            removed: false,
        };
        sh_a.borrow_mut().logs.push(Vec::new());
        let h = mk_handler(sim, "A", i, &c, a, b, &sh_a);
        if !matches!(sut(|| na.add_packet_handler(h, c.capture_all)), Ok(Ok(_))) {
            return Outcome::Foreign("C17.unique", "add_packet_handler failed".into());
        }
        cfg_a.push(c);
    }

    // ---- the events A sends
    let max_events = match tier {
        Tier::Quick => 12,
        Tier::Thorough => 60,
    };
    let n_events = 1 + if sim.chance(85) { sim.draw(max_events.min(12)) } else { sim.draw(max_events) };
    let sizes = match (tier, sim.draw(40)) {
        (Tier::Quick, 39) => {
            if sim.chance(4) {
                SizeCfg { large_pct: 10, huge_pct: 30 }
            } else {
                SizeCfg { large_pct: 20, huge_pct: 0 }
            }
        }
        (Tier::Thorough, 38 | 39) => SizeCfg { large_pct: 15, huge_pct: 8 },
        (Tier::Thorough, 36 | 37) => SizeCfg { large_pct: 25, huge_pct: 0 },
        _ => SizeCfg { large_pct: 0, huge_pct: 0 },
    };
    let mut planned: Vec<(AnyEvent, Packet)> = Vec::new();
    for _ in 0..n_events {
        let k = sim.draw(N_KINDS);
        // destinations: the peer, broadcast, a third device - never the sender itself
        let mut dests: Vec<u16> = Vec::new();
        if b != a {
            dests.push(b);
        }
        if a != BROADCAST_ADDRESS && b != BROADCAST_ADDRESS {
            dests.push(BROADCAST_ADDRESS);
        }
        if a == BROADCAST_ADDRESS {
            // a node whose own address is the broadcast address broadcasts: the packet is for
            // the peer like any other broadcast (and, locally, for the sender's own handlers)
            dests.push(BROADCAST_ADDRESS);
        }
        dests.push(third);
        let to = dests[sim.draw(dests.len() as u32) as usize];
        let ev = gen_event(sim, k, to, sizes);
        let p = match ev.to_packet(sim.u8_any()) {
            Ok(p) => p,
            Err(e) => return Outcome::Foreign("C03.encode", e),
        };
        // the two hello announcements are addressed to broadcast by the library itself
        if p.device_address == a && a != BROADCAST_ADDRESS {
            continue;
        }
        if p.device_address == a {
            sim.probe("broadcast_sent_by_node_whose_address_is_broadcast");
        }
        planned.push((ev, p));
    }
    if planned.is_empty() {
        return Outcome::Pass;
    }
    sim.set_sample(|| {
        format!(
            "link={} schedule_mode={} A={:04x} B={:04x} B-handlers=[{}] A-handlers=[{}] events=[{}]",
            kind.name(),
            mode,
            a,
            b,
            cfg_b
                .iter()
                .map(|c| format!("{}{}", if c.capture_all { "all" } else { "own" }, if c.acks { "+ack" } else { "" }))
                .collect::<Vec<_>>()
                .join(","),
            cfg_a.iter().map(|c| if c.capture_all { "all" } else { "own" }).collect::<Vec<_>>().join(","),
            planned
                .iter()
                .map(|(e, p)| format!("{}->{:04x}/{}B", KIND_NAMES[e.kind() as usize], p.device_address, p.data.len()))
                .collect::<Vec<_>>()
                .join(", ")
        )
    });

    let sig = |w: &str| format!("{}:{}", kind.name(), w);
    let mut sent = 0usize;

    // Checks, after every step, that each handler's log is a prefix of what it must see.
    // `complete`: logs must equal the expectations.
    let check = |sent: usize, complete: bool| -> Option<Outcome> {
        // direction A -> B
        let shb = sh_b.borrow();
        for (i, c) in cfg_b.iter().enumerate() {
            if c.removed {
                if let Some(p) = shb.logs[i].first() {
                    return Some(fail(
                        prop,
                        "C17.remove",
                        format!("B.handler[{}] was unregistered before the first event was sent but observed {}", i, show_packet(p)),
                        sig("removed-handler-invoked"),
                    ));
                }
                continue;
            }
            let exp: Vec<&(AnyEvent, Packet)> = planned[..sent]
                .iter()
                .filter(|(_, p)| c.capture_all || p.device_address == b || p.device_address == BROADCAST_ADDRESS)
                .collect();
            if let Some(o) = compare(prop, &sig, "B", i, c.capture_all, &shb.logs[i], &exp.iter().map(|x| (&x.0, &x.1)).collect::<Vec<_>>(), complete) {
                return Some(o);
            }
        }
        // direction B -> A (acknowledgements)
        let sha = sh_a.borrow();
        for (i, c) in cfg_a.iter().enumerate() {
            if a == BROADCAST_ADDRESS {
                // no replies in such runs; what A's handlers observe are A's own broadcasts,
                // handed to them by send_packet itself (the loop-back rule: C16's subject)
                let exp: Vec<(&AnyEvent, &Packet)> = planned[..sent].iter().filter(|(_, p)| p.device_address == a).map(|(e, p)| (e, p)).collect();
                if let Some(o) = compare("C16", &sig, "A", i, c.capture_all, &sha.logs[i], &exp, true) {
                    return Some(match o {
                        Outcome::Violation(v) => Outcome::Foreign("C16.loop", v.msg),
                        other => other,
                    });
                }
                continue;
            }
            let exp: Vec<(&AnyEvent, &Packet)> = shb
                .acks
                .iter()
                .filter(|(p, _, _)| c.capture_all || p.device_address == a || p.device_address == BROADCAST_ADDRESS)
                .map(|(p, e, _)| (e, p))
                .collect();
            if let Some(o) = compare(prop, &sig, "A", i, c.capture_all, &sha.logs[i], &exp, complete) {
                return Some(o);
            }
        }
        if let Some((p, _, _)) = shb.acks.iter().find(|(_, _, ok)| !*ok) {
            return Some(fail(
                prop,
                "C01.ok",
                format!("a handler's send_packet({}) failed on a reliable link", show_packet(p)),
                sig("handler-send-failed"),
            ));
        }
        None
    };

    // device position of A's receive side after A's last tick: if it moves between ticks, A's
    // link object takes input outside try_get_packet (e.g. its send path parks received bytes
    // while the transmitter is busy) and may hold complete replies internally
    let a_cursor = std::cell::Cell::new(0usize);
    let a_takes_input_outside_ticks = std::cell::Cell::new(false);
    let mut do_tick = |who: &'static str, n: &mut Protocol<'static, I>, sent: usize| -> Option<Outcome> {
        {
            let w = if who == "A" { &ba } else { &ab };
            if who == "A" && w.borrow().cursor != a_cursor.get() {
                a_takes_input_outside_ticks.set(true);
            }
            w.borrow_mut().begin_poll();
        }
        let r = sut(|| n.tick());
        {
            let w = if who == "A" { &ba } else { &ab };
            w.borrow_mut().end_poll();
            if who == "A" {
                a_cursor.set(w.borrow().cursor);
            }
        }
        sim.event(EV_APP, 40 + (who == "A") as u64, matches!(r, Ok(Ok(()))) as u64, || format!("{}.tick -> {}", who, show_tick(&r)));
        match &r {
            Ok(Ok(())) => {}
            Ok(Err(e)) => {
                return Some(fail(
                    prop,
                    "C01.ok",
                    format!("{}.tick returned {:?} on a reliable link", who, e),
                    sig("tick-error"),
                ))
            }
            Err(Crash::Blocked) => {
                return Some(fail(prop, "C01.live", format!("{}.tick never returns", who), sig("blocked")));
            }
            Err(Crash::Panic(m)) => {
                return Some(fail(
                    prop,
                    "C01.ok",
                    format!("{}.tick panicked: {}", who, m),
                    sig(&format!("panic:{}", panic_site(m))),
                ))
            }
        }
        check(sent, false)
    };

    // ---- phase 1: sends interleaved with ticks of both nodes
    let mut idle = 0;
    while sent < planned.len() {
        sim.idle_gap();
        let act = if idle >= 6 { 0 } else { sim.draw(3) };
        match act {
            0 => {
                idle = 0;
                let (_, p) = &planned[sent];
                // Sometimes the event goes out as the request of an *exchange* (an exchange routes
                // its request exactly like an ordinary send). Nothing new arrives at A while the
                // call lasts (reads at frame boundaries are answered "no data yet"), so the
                // exchange consumes no reply and times out; a reply that A has received half of
                // must still be completed and delivered by later ticks.
                if ba.borrow().cursor != a_cursor.get() {
                    a_takes_input_outside_ticks.set(true);
                }
                // (not for link objects that buffer input internally - read-ahead, established by
                // calibration, or input taken outside ticks, seen above: an exchange would
                // legitimately consume replies that sit in such a buffer)
                let as_exchange = acking && !crate::link_hostile::reads_ahead(kind) && !a_takes_input_outside_ticks.get() && sim.chance(20);
                let r = if as_exchange {
                    sim.event(EV_APP, 43, hash_packet(p), || format!("A.exchange_packet::<Ack>({}) [nothing new arrives at A during the call]", show_packet(p)));
                    sim.probe("event_sent_as_exchange_request");
                    ba.borrow_mut().freeze = true;
                    ba.borrow_mut().begin_poll();
                    let req = p.clone();
                    let r = sut(|| na.exchange_packet::<_, AckEvent>(req, false, || {}));
                    ba.borrow_mut().end_poll();
                    ba.borrow_mut().freeze = false;
                    match r {
                        Ok(Ok(_)) | Ok(Err(ProtocolError::PacketTimeout)) => Ok(Ok(())),
                        Ok(Err(e)) => Ok(Err(e)),
                        Err(c) => Err(c),
                    }
                } else {
                    sim.event(EV_APP, 42, hash_packet(p), || format!("A.send_packet({})", show_packet(p)));
                    ba.borrow_mut().in_poll = true;
                    let r = sut(|| na.send_packet(p));
                    ba.borrow_mut().in_poll = false;
                    r
                };
                match r {
                    Ok(Ok(())) => {}
                    other => {
                        return fail(
                            prop,
                            "C01.ok",
                            format!("A.send_packet({}) -> {} on a reliable link", show_packet(p), show_tick(&other)),
                            sig("send-error"),
                        )
                    }
                }
                if p.data.len() > 8 {
                    sim.probe("multi_frame_event");
                }
                if p.data.len() > 1785 {
                    sim.probe("frame_id_over_255");
                }
                sent += 1;
                if ab.borrow().in_flight() > 0 && sent >= 2 {
                    sim.probe("several_events_in_flight");
                }
            }
            1 => {
                idle += 1;
                if let Some(o) = do_tick("B", &mut nb, sent) {
                    return o;
                }
            }
            _ => {
                idle += 1;
                if let Some(o) = do_tick("A", &mut na, sent) {
                    return o;
                }
            }
        }
        sim.abstract_state((bucket(ab.borrow().in_flight()) << 8) | (bucket(ba.borrow().in_flight()) << 4) | act);
    }
    // ---- phase 2: more ticks under the schedule
    let extra = sim.draw(30);
    // (a long pause is sat out tick by tick)
    for _ in 0..(long_pause + if long_pause > 0 { 100 } else { 0 }) {
        if let Some(o) = do_tick("B", &mut nb, sent) {
            return o;
        }
    }
    for _ in 0..extra {
        let o = if sim.flag() { do_tick("B", &mut nb, sent) } else { do_tick("A", &mut na, sent) };
        if let Some(o) = o {
            return o;
        }
    }
    // ---- phase 3 (liveness): everything has arrived; bounded number of ticks to quiescence
    ab.borrow_mut().drain = true;
    ba.borrow_mut().drain = true;
    // each round ticks both nodes once; a round with anything outstanding delivers at least one packet
    // (a receiver may spread a long packet over several polls: frames count too)
    let frames_total: usize = planned.iter().map(|(_, p)| if p.data.len() <= 8 { 1 } else { (p.data.len() - 1) / 7 + 1 }).sum();
    let budget = planned.len() + planned.len() * cfg_b.len() * 8 + frames_total + 4;
    // Quiescence at the API level: once both wires are empty, a receiver can hold at most
    // as many received-but-undelivered packets (in an internal buffer) as were ever sent to
    // it, and every tick hands out at most one. So: tick both nodes until (packets sent +
    // replies sent + 2) consecutive rounds passed in which the wires stayed empty and no
    // handler observed anything and no reply was produced.
    let mut rounds = 0;
    let mut calm = 0;
    loop {
        let logs_before: usize = sh_b.borrow().logs.iter().map(|l| l.len()).sum::<usize>() + sh_a.borrow().logs.iter().map(|l| l.len()).sum::<usize>();
        let acks_before = sh_b.borrow().acks.len();
        if let Some(o) = do_tick("B", &mut nb, sent) {
            return o;
        }
        if let Some(o) = do_tick("A", &mut na, sent) {
            return o;
        }
        rounds += 1;
        let logs_after: usize = sh_b.borrow().logs.iter().map(|l| l.len()).sum::<usize>() + sh_a.borrow().logs.iter().map(|l| l.len()).sum::<usize>();
        let acks_after = sh_b.borrow().acks.len();
        let empty = ab.borrow().in_flight() == 0 && ba.borrow().in_flight() == 0;
        if empty && logs_after == logs_before && acks_after == acks_before {
            calm += 1;
        } else {
            calm = 0;
        }
        if calm >= sent + acks_after + 2 {
            break;
        }
        if rounds > 2 * budget + sent + acks_after + 8 {
            return fail(
                prop,
                "C01.live",
                format!(
                    "no quiescence {} rounds of ticks after the last send although all data has arrived ({} / {} units still on the wires)",
                    rounds,
                    ab.borrow().in_flight(),
                    ba.borrow().in_flight()
                ),
                sig("no-quiescence"),
            );
        }
    }
    if let Some(o) = check(sent, true) {
        return o;
    }
    if !sh_b.borrow().acks.is_empty() {
        sim.probe("both_directions_carried_traffic");
    }
    if cfg_b.iter().any(|c| c.capture_all) && cfg_b.iter().any(|c| !c.capture_all) {
        sim.probe("mixed_handler_table");
    }
    if planned.iter().any(|(_, p)| p.device_address == third) {
        sim.probe("event_for_third_device");
    }
    if a == BROADCAST_ADDRESS || b == BROADCAST_ADDRESS {
        sim.probe("broadcast_node_address");
    }
    let kinds: std::collections::BTreeSet<u32> = planned.iter().map(|(e, _)| e.kind()).collect();
    sim.count_n("event_kinds_sent", kinds.len() as u64);
    Outcome::Pass
}

#[allow(clippy::too_many_arguments)]
fn compare(
    prop: &str,
    sig: &dyn Fn(&str) -> String,
    node: &str,
    idx: usize,
    capture_all: bool,
    log: &[Packet],
    exp: &[(&AnyEvent, &Packet)],
    complete: bool,
) -> Option<Outcome> {
    if log.len() > exp.len() {
        let extra = &log[exp.len()];
        // is it a duplicate or reordering of something sent, or something never sent?
        let known = exp.iter().any(|(_, p)| packet_eq(p, extra));
        // first check the common prefix for a better message
        for (i, (_, p)) in exp.iter().enumerate() {
            if !packet_eq(&log[i], p) {
                return Some(mismatch(prop, sig, node, idx, capture_all, i, &log[i], Some(*p)));
            }
        }
        return Some(fail(
            prop,
            "C01.prefix",
            format!(
                "{}.handler[{}] ({}) observed {} packets but only {} were addressed to it so far; extra: {} ({})",
                node,
                idx,
                if capture_all { "capture-all" } else { "own-address" },
                log.len(),
                exp.len(),
                show_packet(extra),
                if known { "a duplicate of a sent event" } else { "never sent" }
            ),
            sig(if known { "duplicate-delivery" } else { "delivered-not-sent" }),
        ));
    }
    for (i, got) in log.iter().enumerate() {
        let (ev, p) = exp[i];
        if !packet_eq(got, p) {
            return Some(mismatch(prop, sig, node, idx, capture_all, i, got, Some(p)));
        }
        // only newly arrived entries need decoding, but decoding is cheap: check the last one
        if i + 1 == log.len() {
            match AnyEvent::decode(ev.kind(), got) {
                Ok(Some(d)) if d == *ev => {}
                Ok(other) => {
                    return Some(fail(
                        prop,
                        "C01.decode",
                        format!(
                            "{}.handler[{}] received {} which decodes as {} to {:?}, but the event sent was {:?}",
                            node,
                            idx,
                            show_packet(got),
                            KIND_NAMES[ev.kind() as usize],
                            other,
                            ev
                        ),
                        sig("decodes-differently"),
                    ))
                }
                Err(e) => return Some(Outcome::Foreign("C05.total", e)),
            }
        }
    }
    if complete && log.len() != exp.len() {
        return Some(fail(
            prop,
            "C01.complete",
            format!(
                "at quiescence {}.handler[{}] ({}) observed {} of the {} events addressed to it; first missing: {}",
                node,
                idx,
                if capture_all { "capture-all" } else { "own-address" },
                log.len(),
                exp.len(),
                show_packet(exp[log.len()].1)
            ),
            sig("event-lost"),
        ));
    }
    None
}

#[allow(clippy::too_many_arguments)]
fn mismatch(prop: &str, sig: &dyn Fn(&str) -> String, node: &str, idx: usize, capture_all: bool, i: usize, got: &Packet, want: Option<&Packet>) -> Outcome {
    fail(
        prop,
        "C01.prefix",
        format!(
            "{}.handler[{}] ({}) observation #{} is {} but the event sent in that position is {}",
            node,
            idx,
            if capture_all { "capture-all" } else { "own-address" },
            i,
            show_packet(got),
            want.map(|p| show_packet(p)).unwrap_or_default()
        ),
        sig("wrong-event-in-sequence"),
    )
}
