//! S-NODE: one real `Protocol` over a scripted link, driven by generated
//! histories of registry operations, ticks, sends and exchanges, in lock-step
//! with a small model. Decides C15, C16, C17, C18; each check reports only its
//! own clauses, the others act as attribution guards.

use crate::events::{gen_event, gen_kind_packet, kind_name, ref_decode, sanitize, N_APP_KINDS, N_KINDS};
use crate::gen::{fill_pattern, packet_eq, SizeCfg};
use crate::link_hostile::panic_site;
use crate::scenario::{bucket, fail, Outcome, Tier};
use crate::sim::{hash_packet, show_packet, sut, Crash, Sim};
use crate::with_kind;
use ross_protocol::frame::FrameError;
use ross_protocol::interface::can::CanError;
use ross_protocol::interface::serial::SerialError;
use ross_protocol::interface::usart::UsartError;
use ross_protocol::interface::{Interface, InterfaceError};
use ross_protocol::packet::{Packet, PacketBuilderError};
use ross_protocol::protocol::{Protocol, ProtocolError, BROADCAST_ADDRESS};
use std::cell::{Cell, RefCell};
use std::collections::{BTreeMap, BTreeSet, VecDeque};
use std::rc::Rc;

const EV_LINK: u8 = 30;
const EV_HANDLER: u8 = 31;
const EV_OP: u8 = 32;

pub const N_ERR_KINDS: u32 = 30;
/// outcomes a link may give to a *send*: the error values above and, as one more,
/// `NoPacketReceived` (a meaningless answer to a send, but an error value all the same)
pub const N_SEND_ERR_KINDS: u32 = N_ERR_KINDS + 1;

pub fn make_iface_err(k: u32) -> InterfaceError {
    use std::io::{Error, ErrorKind};
    if k == N_ERR_KINDS {
        return InterfaceError::NoPacketReceived;
    }
    let rd = |kind: ErrorKind| InterfaceError::SerialError(SerialError::ReadError(Error::new(kind, "sim read")));
    let wr = |kind: ErrorKind| InterfaceError::SerialError(SerialError::WriteError(Error::new(kind, "sim write")));
    match k % N_ERR_KINDS {
        0 => InterfaceError::CanError(CanError::BufferOverrun),
        1 => InterfaceError::CanError(CanError::MailboxFull),
        2 => InterfaceError::UsartError(UsartError::ReadError),
        3 => rd(ErrorKind::TimedOut),
        4 => wr(ErrorKind::BrokenPipe),
        5 => InterfaceError::SerialError(SerialError::BuilderError(PacketBuilderError::OutOfOrder)),
        6 => InterfaceError::SerialError(SerialError::FrameError(FrameError::CobsError)),
        7 => InterfaceError::BuilderError(PacketBuilderError::OutOfOrder),
        8 => InterfaceError::BuilderError(PacketBuilderError::SingleFramePacket),
        9 => InterfaceError::BuilderError(PacketBuilderError::TooManyFrames),
        10 => InterfaceError::BuilderError(PacketBuilderError::WrongFrameType),
        11 => InterfaceError::BuilderError(PacketBuilderError::DeviceAddressMismatch),
        12 => InterfaceError::BuilderError(PacketBuilderError::MissingFrames),
        13 => InterfaceError::FrameError(FrameError::FrameIsStandard),
        14 => InterfaceError::FrameError(FrameError::FrameIsRemote),
        15 => InterfaceError::FrameError(FrameError::FrameIdMissing),
        16 => InterfaceError::FrameError(FrameError::WrongSize),
        17 => InterfaceError::FrameError(FrameError::CobsError),
        // the io error kinds a retrying or "idle-tolerant" layer is tempted to treat specially
        18 => rd(ErrorKind::Interrupted),
        19 => rd(ErrorKind::WouldBlock),
        20 => rd(ErrorKind::UnexpectedEof),
        21 => rd(ErrorKind::Other),
        22 => rd(ErrorKind::BrokenPipe),
        23 => wr(ErrorKind::Interrupted),
        24 => wr(ErrorKind::TimedOut),
        25 => wr(ErrorKind::WouldBlock),
        26 => wr(ErrorKind::WriteZero),
        27 => wr(ErrorKind::Other),
        28 => InterfaceError::SerialError(SerialError::BuilderError(PacketBuilderError::MissingFrames)),
        _ => InterfaceError::SerialError(SerialError::FrameError(FrameError::WrongSize)),
    }
}

#[derive(Clone, Debug)]
pub enum RxItem {
    Pkt(Packet),
    Nothing,
    Err(u32),
}

pub struct LinkState {
    pub rx: VecDeque<RxItem>,
    /// every packet handed to try_send_packet, with the outcome the link gave
    pub sent: Vec<(Packet, bool, u64)>,
    /// percent of sends that fail
    pub send_err_pct: u32,
    /// forced outcome of the next send (Some(kind) = fail with that error)
    pub next_send_err: Option<Option<u32>>,
    pub get_calls: Vec<u64>,
    pub pkts_taken: u64,
    pub dry_answers: u64,
}

pub struct ScriptLink {
    pub sim: Sim,
    pub name: &'static str,
    pub st: Rc<RefCell<LinkState>>,
}

impl Interface for ScriptLink {
    fn try_get_packet(&mut self) -> Result<Packet, InterfaceError> {
        let _g = crate::alloc::SimDomain::enter();
        let item = {
            let mut s = self.st.borrow_mut();
            let it = s.rx.pop_front();
            let seq = self.sim.steps() + 1;
            s.get_calls.push(seq);
            match &it {
                Some(RxItem::Pkt(_)) => s.pkts_taken += 1,
                None => s.dry_answers += 1,
                _ => {}
            }
            it
        };
        match item {
            Some(RxItem::Pkt(p)) => {
                self.sim.event(EV_LINK, 1, hash_packet(&p), || format!("{}.link.try_get_packet -> Ok({})", self.name, show_packet(&p)));
                Ok(p)
            }
            Some(RxItem::Nothing) | None => {
                self.sim.event(EV_LINK, 2, 0, || format!("{}.link.try_get_packet -> Err(NoPacketReceived)", self.name));
                Err(InterfaceError::NoPacketReceived)
            }
            Some(RxItem::Err(k)) => {
                self.sim.event(EV_LINK, 3, k as u64, || format!("{}.link.try_get_packet -> Err({:?})", self.name, make_iface_err(k)));
                Err(make_iface_err(k))
            }
        }
    }

    fn try_send_packet(&mut self, packet: &Packet) -> Result<(), InterfaceError> {
        let _g = crate::alloc::SimDomain::enter();
        let forced = self.st.borrow_mut().next_send_err.take();
        let pct = self.st.borrow().send_err_pct;
        let err = match forced {
            Some(f) => f,
            None => {
                if self.sim.chance(pct) {
                    Some(self.sim.draw(N_SEND_ERR_KINDS))
                } else {
                    None
                }
            }
        };
        self.sim.event_unordered(EV_LINK, 4, hash_packet(packet) ^ err.map(|e| e as u64 + 1).unwrap_or(0), || {
            format!(
                "{}.link.try_send_packet({}) -> {}",
                self.name,
                show_packet(packet),
                match err {
                    None => "Ok".to_string(),
                    Some(k) => format!("Err({:?})", make_iface_err(k)),
                }
            )
        });
        let seq = self.sim.steps();
        self.st.borrow_mut().sent.push((packet.clone(), err.is_none(), seq));
        match err {
            None => Ok(()),
            Some(k) => Err(make_iface_err(k)),
        }
    }
}

type Proto = Protocol<'static, ScriptLink>;

/// Handlers that register further handlers from inside a delivery are switched off. The
/// unchanged library iterates its handler map while such a handler inserts into it (it
/// happens to work); four of seventy independent behaviour-preserving variants - safe-Rust
/// handler tables among them - crash when a handler does that, and their authors had every
/// reason to consider it outside what C15-C17 speak about. The mechanism is kept for
/// experiments (`true` here), not used by any registered check.
const REGISTRARS_ENABLED: bool = false;

thread_local! {
    static DEPTH: Cell<u32> = Cell::new(0);
    /// Some(levels sent so far) while a chain of nested own-address sends is in progress
    static CHAIN: RefCell<Option<Vec<u8>>> = RefCell::new(None);
    /// Some(..) while a delivery is in progress during which `Registrar` handlers register
    /// new handlers: (next token to hand out, registrations made: token and result)
    static REG: RefCell<Option<(u32, Vec<(u32, Result<u32, String>)>)>> = RefCell::new(None);
}

#[derive(Clone, Debug)]
enum Beh {
    Plain,
    /// transmits this packet (to another device) through the handle it is given
    Sender(Packet),
    /// performs a single-reply exchange for acknowledgements (capture_all = false) through
    /// the handle it is given and records what it got
    Exchanger,
    /// when it is handed a chain packet `[0x7a, n, ..]` with n > 0 addressed to the node's own
    /// address (given here), it sends `[0x7a, n - 1, ..]` to the own address through the handle
    /// it is given: sends nested n levels deep, each of which must reach every local handler
    SelfSender(u16),
    /// when armed (see REG) it registers one new plain own-address handler through the handle
    /// it is given, from inside the delivery, and records the id it got
    Registrar,
}

#[derive(Clone, Debug)]
struct MHandler {
    token: u32,
    capture_all: bool,
    beh: Beh,
    /// registered as a non-capturing function item (a zero-sized closure: every such box
    /// has the same dangling address) instead of a closure that captures its state
    zst: Option<usize>,
}

pub const ZST_TOKEN_BASE: u32 = 9000;

thread_local! {
    /// context of the zero-sized handlers of the main node (they cannot capture anything)
    static ZCTX: RefCell<Option<(Sim, Rc<RefCell<HLog>>)>> = RefCell::new(None);
}

fn zst_fire(slot: u32, p: &Packet) {
    let _g = crate::alloc::SimDomain::enter();
    ZCTX.with(|c| {
        if let Some((sim, hlog)) = c.borrow().as_ref() {
            let token = ZST_TOKEN_BASE + slot;
            sim.event_unordered(EV_HANDLER, token as u64, hash_packet(p), || format!("n.handler#{} (zero-sized) called with {}", token, show_packet(p)));
            let seq = sim.steps();
            hlog.borrow_mut().fired.push((token, p.clone(), seq));
        }
    });
}
fn zst0(p: &Packet, _: &mut Proto) {
    zst_fire(0, p)
}
fn zst1(p: &Packet, _: &mut Proto) {
    zst_fire(1, p)
}
fn zst2(p: &Packet, _: &mut Proto) {
    zst_fire(2, p)
}
fn zst3(p: &Packet, _: &mut Proto) {
    zst_fire(3, p)
}

#[derive(Default)]
struct HLog {
    fired: Vec<(u32, Packet, u64)>,
    /// exchanges performed by handlers: (token, debug text of the result, runs of its wait callback)
    nested: Vec<(u32, String, u32)>,
}

/// One real node plus everything the harness observes about it.
struct Node {
    name: &'static str,
    own: u16,
    proto: Proto,
    link: Rc<RefCell<LinkState>>,
    hlog: Rc<RefCell<HLog>>,
    /// the packet handed to the link most recently (for "echo" relations between
    /// what a node sends and what it receives next)
    last_sent: RefCell<Option<Packet>>,
}

fn new_node(sim: &Sim, name: &'static str, own: u16) -> Node {
    let st = Rc::new(RefCell::new(LinkState {
        rx: VecDeque::new(),
        sent: Vec::new(),
        send_err_pct: 0,
        next_send_err: None,
        get_calls: Vec::new(),
        pkts_taken: 0,
        dry_answers: 0,
    }));
    let link = ScriptLink {
        sim: sim.clone(),
        name,
        st: st.clone(),
    };
    Node {
        name,
        own,
        proto: Protocol::new(own, link),
        link: st,
        hlog: Rc::new(RefCell::new(HLog::default())),
        last_sent: RefCell::new(None),
    }
}

fn make_handler(sim: &Sim, name: &'static str, h: &MHandler, hlog: &Rc<RefCell<HLog>>) -> Box<dyn FnMut(&Packet, &mut Proto)> {
    if name == "n" {
        match h.zst {
            Some(0) => return Box::new(zst0),
            Some(1) => return Box::new(zst1),
            Some(2) => return Box::new(zst2),
            Some(3) => return Box::new(zst3),
            _ => {}
        }
    }
    let sim = sim.clone();
    let hlog = hlog.clone();
    let token = h.token;
    let beh = h.beh.clone();
    Box::new(move |p: &Packet, proto: &mut Proto| {
        let _g = crate::alloc::SimDomain::enter();
        sim.event_unordered(EV_HANDLER, token as u64, hash_packet(p), || format!("{}.handler#{} called with {}", name, token, show_packet(p)));
        let seq = sim.steps();
        hlog.borrow_mut().fired.push((token, p.clone(), seq));
        if let Beh::Sender(out) = &beh {
            // a defect that loops transmitted packets back into the handlers must show up as
            // a wrong fan-out, not as a stack overflow of the worker
            let depth = DEPTH.with(|d| d.get());
            if depth < 3 {
                DEPTH.with(|d| d.set(depth + 1));
                sim.count("handler_sent_from_delivery");
                let _ = proto.send_packet(out);
                DEPTH.with(|d| d.set(depth));
            }
        }
        if let Beh::Registrar = &beh {
            // (at most four registrations per delivery, however often a defective dispatch
            // invokes this handler)
            let tok = REG.with(|r| {
                r.borrow_mut().as_mut().and_then(|(next, made)| {
                    if made.len() >= 4 {
                        None
                    } else {
                        *next += 1;
                        Some(*next - 1)
                    }
                })
            });
            if let Some(new_token) = tok {
                let h = MHandler { token: new_token, capture_all: false, beh: Beh::Plain, zst: None };
                let boxed = make_handler(&sim, name, &h, &hlog);
                sim.count("handler_registered_from_inside_a_delivery");
                let r = proto.add_packet_handler(boxed, false).map_err(|e| format!("{:?}", e));
                sim.event(EV_OP, 14, new_token as u64, || format!("{}.handler#{}: add_packet_handler(#{}) from inside the delivery -> {:?}", name, token, new_token, r));
                REG.with(|x| {
                    if let Some((_, made)) = x.borrow_mut().as_mut() {
                        made.push((new_token, r));
                    }
                });
            }
        }
        if let Beh::SelfSender(own) = &beh {
            // (armed only while a chain send is being judged: an echo of a chain packet that
            // arrives through a tick later is an ordinary packet)
            let armed = CHAIN.with(|c| c.borrow().is_some());
            if armed && p.device_address == *own && p.data.len() >= 2 && p.data[0] == 0x7a && p.data[1] > 0 {
                let mut q = p.clone();
                q.data[1] -= 1;
                sim.count("handler_sent_to_own_address_from_delivery");
                CHAIN.with(|c| {
                    if let Some(v) = c.borrow_mut().as_mut() {
                        v.push(q.data[1]);
                    }
                });
                let _ = proto.send_packet(&q);
            }
        }
        if let Beh::Exchanger = &beh {
            let depth = DEPTH.with(|d| d.get());
            if depth < 1 {
                DEPTH.with(|d| d.set(depth + 1));
                sim.count("handler_started_an_exchange");
                let req = Packet {
                    is_error: false,
                    device_address: 0x0303,
                    data: vec![0x7c, token as u8],
                };
                let nwaits = Cell::new(0u32);
                let sim3 = sim.clone();
                let r = proto.exchange_packet::<_, ross_protocol::event::general::AckEvent>(req, false, || {
                    sim3.event(EV_OP, 11, 0, || "wait callback of the handler's own exchange runs".to_string());
                    nwaits.set(nwaits.get() + 1);
                });
                let text = format!("{:?}", r);
                sim.event(EV_OP, 12, crate::sim::hash_bytes(0, text.as_bytes()), || format!("{}.handler#{}: its own exchange_packet::<Ack> -> {}", name, token, text));
                hlog.borrow_mut().nested.push((token, text, nwaits.get()));
                DEPTH.with(|d| d.set(depth));
            }
        }
    })
}

struct Model {
    own: u16,
    live: BTreeMap<u32, MHandler>,
    dead: BTreeSet<u32>,
    removed_ids: Vec<u32>,
    next_token: u32,
}

fn show_perr(r: &Result<Result<(), ProtocolError>, Crash>) -> String {
    match r {
        Ok(Ok(())) => "Ok".to_string(),
        Ok(Err(e)) => format!("Err({:?})", e),
        Err(c) => format!("{:?}", c),
    }
}

fn crash_sig(what: &str, c: &Crash) -> String {
    match c {
        Crash::Panic(m) => format!("{}-panic:{}", what, panic_site(m)),
        Crash::Blocked => format!("{}-blocked", what),
    }
}

/// Which delivery path an observation came from.
#[derive(Clone, Copy, PartialEq)]
enum Path {
    Tick,
    Loop,
}

struct Delivery {
    fired: Vec<(u32, Packet, u64)>,
    sent: Vec<(Packet, bool, u64)>,
}

fn take_logs(n: &Node) -> Delivery {
    let d = Delivery {
        fired: std::mem::take(&mut n.hlog.borrow_mut().fired),
        sent: std::mem::take(&mut n.link.borrow_mut().sent),
    };
    if let Some((p, _, _)) = d.sent.last() {
        *n.last_sent.borrow_mut() = Some(p.clone());
    }
    d
}

/// Compares what fired with what the model expects; on a discrepancy asks the
/// registry itself (remove) to attribute it to dispatch or to the registry.
/// Returns (clause, message, signature).
fn judge_fanout(
    node: &mut Node,
    model: &Model,
    path: Path,
    packet: &Packet,
    expect_tokens: &BTreeSet<u32>,
    d: &Delivery,
) -> Option<(&'static str, String, String)> {
    let own_clause: &'static str = match path {
        Path::Tick => "C15.fanout",
        Path::Loop => "C16.loop",
    };
    let mut seen: BTreeMap<u32, u32> = BTreeMap::new();
    for (t, p, _) in &d.fired {
        *seen.entry(*t).or_insert(0) += 1;
        if model.dead.contains(t) {
            return Some((
                "C17.remove",
                format!("handler #{} was removed earlier but was invoked again with {}", t, show_packet(p)),
                "removed-handler-invoked".to_string(),
            ));
        }
        if !packet_eq(p, packet) {
            return Some((
                own_clause,
                format!("handler #{} saw {} but the packet is {}", t, show_packet(p), show_packet(packet)),
                "packet-modified".to_string(),
            ));
        }
    }
    for (t, n) in &seen {
        if !expect_tokens.contains(t) {
            return Some((
                own_clause,
                format!(
                    "handler #{} was invoked for {} but is not eligible (own address {:04x}, capture-all {:?})",
                    t,
                    show_packet(packet),
                    model.own,
                    model.live.values().find(|h| h.token == *t).map(|h| h.capture_all)
                ),
                "ineligible-handler-invoked".to_string(),
            ));
        }
        if *n != 1 {
            return Some((
                own_clause,
                format!("handler #{} was invoked {} times for one packet {}", t, n, show_packet(packet)),
                "delivered-more-than-once".to_string(),
            ));
        }
    }
    for t in expect_tokens {
        if !seen.contains_key(t) {
            // is the handler still in the table?
            let id = model.live.iter().find(|(_, h)| h.token == *t).map(|(id, _)| *id).unwrap_or(u32::MAX);
            let r = sut(|| node.proto.remove_packet_handler(id));
            return match r {
                Ok(Ok(())) => Some((
                    own_clause,
                    format!(
                        "handler #{} (id {}, capture-all {:?}) is registered but was not invoked for {} (own address {:04x})",
                        t,
                        id,
                        model.live.get(&id).map(|h| h.capture_all),
                        show_packet(packet),
                        model.own
                    ),
                    "eligible-handler-not-invoked".to_string(),
                )),
                _ => Some((
                    "C17.keep",
                    format!(
                        "handler #{} (id {}) was registered and never removed, but it no longer fires and the registry reports {:?} for its id",
                        t, id, r
                    ),
                    "live-handler-lost".to_string(),
                )),
            };
        }
    }
    None
}

/// Reveal deliveries on the twin node (fixed packets, nothing is judged here).
fn twin_reveal(t: &mut Node, own: u16) -> (BTreeSet<u32>, BTreeSet<u32>) {
    let p_own = Packet {
        is_error: false,
        device_address: own,
        data: vec![0x7e, 0x01],
    };
    let foreign = if own == 0x0202 { 0x0303 } else { 0x0202 };
    let p_for = Packet {
        is_error: false,
        device_address: foreign,
        data: vec![0x7e, 0x02],
    };
    let mut o = BTreeSet::new();
    let mut f = BTreeSet::new();
    t.link.borrow_mut().rx.push_front(RxItem::Pkt(p_own.clone()));
    let _ = sut(|| t.proto.tick());
    t.link.borrow_mut().next_send_err = Some(None);
    let _ = sut(|| t.proto.send_packet(&p_own));
    t.link.borrow_mut().next_send_err = None;
    for (tok, p, _) in take_logs(t).fired {
        if packet_eq(&p, &p_own) {
            o.insert(tok);
        }
    }
    t.link.borrow_mut().rx.clear();
    t.link.borrow_mut().rx.push_front(RxItem::Pkt(p_for.clone()));
    let _ = sut(|| t.proto.tick());
    for (tok, p, _) in take_logs(t).fired {
        if packet_eq(&p, &p_for) {
            f.insert(tok);
        }
    }
    t.link.borrow_mut().rx.clear();
    (o, f)
}

/// Live handlers as (token, id) in registration order. Every choice and every iteration
/// goes by token, never by id: ids are the implementation's business (they may even be
/// derived from addresses) and must not influence the run or its event log.
fn live_by_token(model: &Model) -> Vec<(u32, u32)> {
    let mut v: Vec<(u32, u32)> = model.live.iter().map(|(id, h)| (h.token, *id)).collect();
    v.sort();
    v
}

fn expected_tokens(model: &Model, owned: bool) -> BTreeSet<u32> {
    model.live.values().filter(|h| owned || h.capture_all).map(|h| h.token).collect()
}

/// Packets the eligible sender-handlers are expected to transmit.
fn expected_reent(model: &Model, tokens: &BTreeSet<u32>) -> Vec<Packet> {
    model
        .live
        .values()
        .filter(|h| tokens.contains(&h.token))
        .filter_map(|h| match &h.beh {
            Beh::Sender(p) => Some(p.clone()),
            _ => None,
        })
        .collect()
}

fn multiset_eq(a: &[Packet], b: &[Packet]) -> bool {
    if a.len() != b.len() {
        return false;
    }
    let mut used = vec![false; b.len()];
    'outer: for x in a {
        for (i, y) in b.iter().enumerate() {
            if !used[i] && packet_eq(x, y) {
                used[i] = true;
                continue 'outer;
            }
        }
        return false;
    }
    true
}

fn multiset_included(a: &[Packet], b: &[Packet]) -> bool {
    let mut used = vec![false; b.len()];
    'outer: for x in a {
        for (i, y) in b.iter().enumerate() {
            if !used[i] && packet_eq(x, y) {
                used[i] = true;
                continue 'outer;
            }
        }
        return false;
    }
    true
}

fn gen_app_packet(sim: &Sim, addr: u16, tag: u32) -> Packet {
    if sim.chance(25) {
        // a real event encoding: routing must not depend on what a packet contains
        let ev = gen_event(sim, sim.draw(N_KINDS), addr, SizeCfg { large_pct: 0, huge_pct: 0 });
        if let Ok(mut p) = ev.to_packet((tag & 0xff) as u8) {
            p.device_address = addr;
            sanitize(&mut p);
            return p;
        }
    }
    let len = if sim.draw(400) == 399 {
        // (incl. packets beyond what 4096 frames can carry: routing does not depend on size)
        sim.pick(&[28672usize, 28671, 28666, 4096, 28673, 40000, 70000])
    } else {
        sim.pick(&[4usize, 0, 2, 9, 14, 30])
    };
    let mut data = fill_pattern(sim.pick(&[6u32, 3, 1]), tag, len);
    if len >= 2 {
        // keep clear of event codes so that it never decodes by accident
        data[0] = 0x7e;
    }
    let mut p = Packet {
        is_error: sim.chance(20),
        device_address: addr,
        data,
    };
    sanitize(&mut p);
    p
}

/// The node's own address: mostly one of a few corner values, sometimes any 16-bit value
/// (never 0x0303, the fixed destination of the requests that exchanging handlers send).
fn own_address(sim: &Sim, corner: &[u16]) -> u16 {
    let k = sim.draw(corner.len() as u32 + 2) as usize;
    let a = if k < corner.len() {
        corner[k]
    } else if k == corner.len() {
        sim.pick(&[0xfffeu16, 0x0001, 0x7fff, 0xff00, 0x0100])
    } else {
        sim.u16_any()
    };
    if a == 0x0303 {
        0x0304
    } else {
        a
    }
}

fn other_addr_not_broadcast(sim: &Sim, own: u16) -> u16 {
    let a = sim.pick(&[0x0202u16, 0x0000, 0xfffe, 0x0001]);
    if a == own {
        a ^ 0x0100
    } else {
        a
    }
}

fn other_addr(sim: &Sim, own: u16) -> u16 {
    let a = sim.pick(&[0x0202u16, 0x0000, 0xfffe, 0x0001, 0xabcd, 0xffff]);
    if a == own {
        a ^ 0x0100
    } else {
        a
    }
}

// -------------------------------------------------------------- the run ----

pub fn run(sim: &Sim, prop: &str, tier: Tier) -> Outcome {
    // nothing of an earlier run of this worker may steer this one (an earlier run may have been
    // unwound out of a handler, leaving the re-entrance depth raised)
    DEPTH.with(|d| d.set(0));
    CHAIN.with(|c| *c.borrow_mut() = None);
    REG.with(|r| *r.borrow_mut() = None);
    ZCTX.with(|c| *c.borrow_mut() = None);
    if prop == "C18" {
        return run_exchange(sim, prop, tier);
    }
    let own = own_address(sim, &[0x0101u16, 0xffff, 0x0000, 0x00ff, 0x8000]);
    let mut node = new_node(sim, "n", own);
    ZCTX.with(|c| *c.borrow_mut() = Some((sim.clone(), node.hlog.clone())));
    let mut zst_used = 0usize;
    let mut model = Model {
        own,
        live: BTreeMap::new(),
        dead: BTreeSet::new(),
        removed_ids: Vec::new(),
        next_token: 1,
    };
    let max_ops = match tier {
        Tier::Quick => 24,
        Tier::Thorough => 80,
    };
    // swarm: rarely a long history (state that only matters hundreds of operations later)
    let long_history = sim.draw(150) == 149;
    let n_ops = if long_history {
        sim.probe("history_over_150_operations");
        sim.pick(&[300u32, 700, 1500])
    } else {
        1 + if sim.chance(85) { sim.draw(max_ops.min(24)) } else { sim.draw(max_ops) }
    };
    node.link.borrow_mut().send_err_pct = sim.pick(&[0u32, 0, 20]);
    // op mix: registry-heavy histories for C17, delivery-heavy for the others
    let reg_weight = if long_history {
        // long histories keep their handlers for a long time
        sim.pick(&[2u32, 5])
    } else if prop == "C17" {
        sim.pick(&[60u32, 80, 40])
    } else {
        sim.pick(&[30u32, 15, 50])
    };
    let mut ops_log: Vec<String> = Vec::new();
    // C17 only: a twin node receives the same registry operations, each followed at once by
    // reveal deliveries. A handler that is live on the twin but silent here was lost to the
    // *history* of registry operations (not to a static dispatch defect, which would
    // silence it on the twin too).
    let mut twin: Option<Node> = if prop == "C17" { Some(new_node(sim, "t", own)) } else { None };
    let mut twin_own: BTreeSet<u32> = BTreeSet::new();
    let mut twin_foreign: BTreeSet<u32> = BTreeSet::new();
    // swarm: how often a registry operation is followed by a reveal step
    let reveal_pct = sim.pick(&[100u32, 100, 60, 25]);
    // swarm: a large handler table built up front ("any number of handlers")
    let bulk = if sim.chance(4) { sim.pick(&[17u32, 33, 40, 70, 130, 140, 260]) } else { 0 };
    let mut pending_reveal = false;
    let mut id_reused = false;
    let mut seen_own: BTreeSet<u32> = BTreeSet::new();
    let mut seen_foreign: BTreeSet<u32> = BTreeSet::new();

    // swarm: where the capture-all handlers of a large table sit (anywhere / nowhere / everywhere /
    // only from some table position on - e.g. all of them behind the 32nd or 64th entry)
    let bulk_policy = if bulk > 0 { sim.draw(4) } else { 0 };
    let bulk_from = if bulk_policy == 3 { sim.pick(&[32u32, 16, 33, 64, 8, 128, 129]) } else { 0 };
    for bi in 0..bulk {
        let capture_all = match bulk_policy {
            0 => sim.chance(40),
            1 => false,
            2 => true,
            _ => bi >= bulk_from,
        };
        let token = model.next_token;
        model.next_token += 1;
        let h = MHandler { token, capture_all, beh: Beh::Plain, zst: None };
        let boxed = make_handler(sim, "n", &h, &node.hlog);
        if let Some(t) = twin.as_mut() {
            let b2 = make_handler(sim, "t", &h, &t.hlog);
            let _ = sut(|| t.proto.add_packet_handler(b2, capture_all));
        }
        match sut(|| node.proto.add_packet_handler(boxed, capture_all)) {
            Ok(Ok(id)) => {
                if model.live.contains_key(&id) {
                    return fail(
                        prop,
                        "C17.unique",
                        format!("add_packet_handler returned id {} which is the id of a live handler (table of {})", id, model.live.len()),
                        "duplicate-id".to_string(),
                    );
                }
                model.live.insert(id, h);
            }
            other => return fail(prop, "C17.unique", format!("add_packet_handler failed: {:?}", other), "add-failed".to_string()),
        }
    }
    if bulk > 0 {
        if let Some(t) = twin.as_mut() {
            let (o, f) = twin_reveal(t, own);
            twin_own = o;
            twin_foreign = f;
        }
        ops_log.push(format!("add x{}", bulk));
        sim.probe("large_handler_table");
        pending_reveal = true;
    }

    let mut i = 0;
    while i < n_ops {
        i += 1;
        sim.idle_gap();
        // ---- choose the operation
        let op = if pending_reveal {
            pending_reveal = false;
            100 // reveal
        } else if model.live.is_empty() && sim.chance(70) {
            0
        } else if sim.chance(reg_weight) {
            if long_history {
                // few removals: most handlers of a long history live through all of it
                (sim.draw(10) >= 8) as u32
            } else {
                sim.draw(2) // 0 add, 1 remove
            }
        } else if prop == "C17" && model.live.values().any(|h| matches!(h.beh, Beh::Registrar)) && sim.chance(if model.live.len() < 24 && !long_history { 30 } else { 1 }) {
            5 // a delivery during which handlers register further handlers
        } else if prop == "C17" && model.live.len() >= 12 && sim.chance(8) {
            6 // a burst of registry operations with no delivery in between
        } else if sim.chance(6) {
            4 // an exchange in the middle of the history (judged by C18, not here)
        } else if long_history {
            // delivery-heavy
            if sim.draw(10) < 7 {
                2
            } else {
                3
            }
        } else {
            2 + sim.draw(2) // 2 tick, 3 send
        };
        match op {
            // ------------------------------------------------------ add
            0 => {
                let capture_all = sim.flag();
                // some handlers are plain function items: zero-sized, no captured state
                let zst = if zst_used < 4 && sim.chance(12) {
                    zst_used += 1;
                    sim.probe("zero_sized_handler_registered");
                    Some(zst_used - 1)
                } else {
                    None
                };
                let token = match zst {
                    Some(k) => ZST_TOKEN_BASE + k as u32,
                    None => {
                        model.next_token += 1;
                        model.next_token - 1
                    }
                };
                let self_sender_live = model.live.values().any(|h| matches!(h.beh, Beh::SelfSender(_)));
                let beh = if zst.is_some() {
                    Beh::Plain
                } else if REGISTRARS_ENABLED && prop == "C17" && model.live.values().filter(|h| matches!(h.beh, Beh::Registrar)).count() < 2 && sim.chance(7) {
                    // (only in the C17 check, at most two per table; the unchanged library
                    // iterates its handler map while such a handler inserts into it, so nothing
                    // is judged about the delivery during which that happens - only the ids
                    // returned and the state of the registry afterwards)
                    Beh::Registrar
                } else if prop == "C16" && !self_sender_live && sim.chance(6) {
                    // (only in the C16 check: own-address sends made by handlers are outside
                    // what C15 / C17 speak about, and an implementation that mishandles them
                    // must not disturb those checks)
                    // (at most one per table: two would multiply the chain at every level)
                    Beh::SelfSender(own)
                } else if sim.chance(25) {
                    let dest = other_addr(sim, own);
                    let dest = if dest == own { dest ^ 1 } else { dest };
                    Beh::Sender(Packet {
                        is_error: false,
                        device_address: dest,
                        data: vec![0x7d, token as u8, (token >> 8) as u8, 0x55],
                    })
                } else {
                    Beh::Plain
                };
                let h = MHandler { token, capture_all, beh, zst };
                let boxed = make_handler(sim, "n", &h, &node.hlog);
                if let Some(t) = twin.as_mut() {
                    let b2 = make_handler(sim, "t", &h, &t.hlog);
                    let _ = sut(|| t.proto.add_packet_handler(b2, capture_all));
                    let (o, f) = twin_reveal(t, own);
                    twin_own = o;
                    twin_foreign = f;
                }
                let r = sut(|| node.proto.add_packet_handler(boxed, capture_all));
                sim.event(EV_OP, 1, token as u64, || {
                    format!("add_packet_handler(#{} capture_all={} {:?}) -> {:?}", token, capture_all, h.beh, r)
                });
                ops_log.push(format!("add#{}", token));
                match r {
                    Ok(Ok(id)) => {
                        if model.live.contains_key(&id) {
                            return fail(
                                prop,
                                "C17.unique",
                                format!(
                                    "add_packet_handler returned id {} which is the id of the live handler #{} (live ids: {:?})",
                                    id,
                                    model.live[&id].token,
                                    model.live.keys().collect::<Vec<_>>()
                                ),
                                "duplicate-id".to_string(),
                            );
                        }
                        if model.removed_ids.contains(&id) {
                            id_reused = true;
                            sim.probe("id_reused_after_removal");
                        }
                        model.live.insert(id, h);
                    }
                    other => {
                        return fail(
                            prop,
                            "C17.unique",
                            format!("add_packet_handler failed: {:?}", other),
                            "add-failed".to_string(),
                        )
                    }
                }
                pending_reveal = sim.chance(reveal_pct);
            }
            // --------------------------------------------------- remove
            1 => {
                let choice = sim.draw(10);
                let id = if choice < 6 && !model.live.is_empty() {
                    // a live id (any position in the table; sometimes one of the handlers
                    // registered last but not the very last: a hole just below the top)
                    let lv = live_by_token(&model);
                    if lv.len() >= 3 && sim.chance(20) {
                        let back = 2 + sim.draw((lv.len() as u32 - 2).min(6)) as usize;
                        lv[lv.len() - back].1
                    } else {
                        lv[sim.draw(lv.len() as u32) as usize].1
                    }
                } else if choice < 8 && !model.removed_ids.is_empty() {
                    model.removed_ids[sim.draw(model.removed_ids.len() as u32) as usize]
                } else {
                    // never-issued ids, including ones that alias a live id if an id is
                    // truncated, masked or taken modulo something on the way
                    let some_live = live_by_token(&model).last().map(|x| x.1).unwrap_or(0);
                    sim.pick(&[
                        model.live.len() as u32,
                        1000,
                        u32::MAX,
                        model.live.len() as u32 + 1,
                        some_live.wrapping_add(0x1_0000),
                        some_live.wrapping_add(0x100),
                        some_live | 0x8000_0000,
                        some_live.wrapping_add(32),
                        some_live.wrapping_add(64),
                    ])
                };
                let was_live = model.live.contains_key(&id);
                if let Some(t) = twin.as_mut() {
                    let _ = sut(|| t.proto.remove_packet_handler(id));
                    let (o, f) = twin_reveal(t, own);
                    twin_own = o;
                    twin_foreign = f;
                }
                let r = sut(|| node.proto.remove_packet_handler(id));
                let id_class: u64 = match model.live.get(&id) {
                    Some(h) => 0x1000 + h.token as u64,
                    None => match model.removed_ids.iter().position(|x| *x == id) {
                        Some(k) => 0x2000 + k as u64,
                        None => 0x3000 + choice as u64,
                    },
                };
                sim.event(EV_OP, 2, id_class, || format!("remove_packet_handler({}) -> {:?}   (model: {})", id, r, if was_live { "registered" } else { "not registered" }));
                ops_log.push(format!("rm{}", id));
                match (r, was_live) {
                    (Ok(Ok(())), true) => {
                        let h = model.live.remove(&id).unwrap();
                        model.dead.insert(h.token);
                        model.removed_ids.push(id);
                        sim.probe("handler_removed");
                    }
                    (Ok(Err(ProtocolError::NoSuchHandler)), false) => {
                        sim.probe("remove_of_unregistered_id");
                    }
                    (Ok(Ok(())), false) => {
                        return fail(
                            prop,
                            "C17.nosuch",
                            format!("removing id {} which is not registered returned Ok (live ids: {:?})", id, model.live.keys().collect::<Vec<_>>()),
                            "remove-unregistered-ok".to_string(),
                        )
                    }
                    (other, true) => {
                        return fail(
                            prop,
                            "C17.remove",
                            format!("removing the registered id {} returned {:?}", id, other),
                            "remove-registered-failed".to_string(),
                        )
                    }
                    (other, false) => {
                        return fail(
                            prop,
                            "C17.nosuch",
                            format!("removing the unregistered id {} returned {:?} instead of NoSuchHandler", id, other),
                            "remove-unregistered-other".to_string(),
                        )
                    }
                }
                pending_reveal = sim.chance(reveal_pct);
            }
            // ----------------------------------------------------- tick
            2 => {
                if let Some(o) = op_tick(sim, prop, &mut node, &model, None) {
                    return o;
                }
                ops_log.push("tick".to_string());
            }
            // ----------------------------------------------------- send
            3 => {
                if let Some(o) = op_send(sim, prop, &mut node, &model, None) {
                    return o;
                }
                ops_log.push("send".to_string());
            }
            // ------------------------------------------------- exchange
            4 => {
                let kind = sim.draw(N_KINDS);
                let n_in = sim.draw(5);
                for _ in 0..n_in {
                    let to = match sim.draw(3) {
                        0 => own,
                        1 => BROADCAST_ADDRESS,
                        _ => other_addr(sim, own),
                    };
                    let k = if sim.flag() { kind } else { sim.draw(N_KINDS) };
                    if let Ok(mut p) = gen_event(sim, k, to, SizeCfg { large_pct: 0, huge_pct: 0 }).to_packet(0) {
                        sanitize(&mut p);
                        if kind == 4 && p.data.len() < 6 {
                            p.data.resize(6, 0xee);
                        }
                        node.link.borrow_mut().rx.push_back(RxItem::Pkt(p));
                    }
                }
                if sim.chance(30) {
                    // the polling ends in a link error now and then
                    let at = sim.draw(node.link.borrow().rx.len() as u32 + 1) as usize;
                    node.link.borrow_mut().rx.insert(at, RxItem::Err(sim.draw(N_ERR_KINDS)));
                }
                let request = gen_app_packet(sim, other_addr(sim, own), 0x800 + i);
                let capture = sim.flag();
                let multi_form = sim.flag();
                let _ = with_kind!(kind, T => {
                    if multi_form {
                        sut(|| node.proto.exchange_packets::<_, T>(request.clone(), capture, || {}).map(|_| ()))
                    } else {
                        sut(|| node.proto.exchange_packet::<_, T>(request.clone(), capture, || {}).map(|_| ()))
                    }
                });
                node.link.borrow_mut().rx.clear();
                let d = take_logs(&node);
                for (t, _, _) in &d.fired {
                    if model.dead.contains(t) {
                        return fail(prop, "C17.remove", format!("handler #{} was removed but was invoked during an exchange", t), "removed-handler-invoked".to_string());
                    }
                }
                sim.probe("exchange_inside_history");
                ops_log.push("exchange".to_string());
                // (an exchange must leave the registry alone: look at once)
                pending_reveal = prop == "C17" && sim.flag();
            }
            // ------------------ burst of removals and additions, no delivery between
            6 => {
                // most of the table is unregistered in one go (16 or more removals without a
                // tick or send in between), then a few handlers are registered; the reveal that
                // follows shows whether anything live was lost or anything removed still fires
                let n_rm = (10 + sim.draw(20) as usize).min(model.live.len() - 1);
                let mut failed: Option<Outcome> = None;
                for _ in 0..n_rm {
                    let lv = live_by_token(&model);
                    let id = lv[sim.draw(lv.len() as u32) as usize].1;
                    if let Some(t) = twin.as_mut() {
                        let _ = sut(|| t.proto.remove_packet_handler(id));
                    }
                    let r = sut(|| node.proto.remove_packet_handler(id));
                    sim.event(EV_OP, 16, model.live[&id].token as u64, || format!("remove_packet_handler({}) [burst] -> {:?}", id, r));
                    ops_log.push(format!("rm{}", id));
                    match r {
                        Ok(Ok(())) => {
                            let h = model.live.remove(&id).unwrap();
                            model.dead.insert(h.token);
                            model.removed_ids.push(id);
                        }
                        other => {
                            failed = Some(fail(prop, "C17.remove", format!("removing the registered id {} returned {:?}", id, other), "remove-registered-failed".to_string()));
                            break;
                        }
                    }
                }
                if let Some(o) = failed {
                    return o;
                }
                let n_add = 1 + sim.draw(3);
                for _ in 0..n_add {
                    let capture_all = sim.flag();
                    let token = model.next_token;
                    model.next_token += 1;
                    let h = MHandler { token, capture_all, beh: Beh::Plain, zst: None };
                    let boxed = make_handler(sim, "n", &h, &node.hlog);
                    if let Some(t) = twin.as_mut() {
                        let b2 = make_handler(sim, "t", &h, &t.hlog);
                        let _ = sut(|| t.proto.add_packet_handler(b2, capture_all));
                    }
                    let r = sut(|| node.proto.add_packet_handler(boxed, capture_all));
                    sim.event(EV_OP, 1, token as u64, || format!("add_packet_handler(#{} capture_all={}) [burst] -> {:?}", token, capture_all, r));
                    ops_log.push(format!("add#{}", token));
                    match r {
                        Ok(Ok(id)) => {
                            if model.live.contains_key(&id) {
                                return fail(
                                    prop,
                                    "C17.unique",
                                    format!("add_packet_handler returned id {} which is the id of the live handler #{} (after a burst of {} removals)", id, model.live[&id].token, n_rm),
                                    "duplicate-id".to_string(),
                                );
                            }
                            if model.removed_ids.contains(&id) {
                                id_reused = true;
                                sim.probe("id_reused_after_removal");
                            }
                            model.live.insert(id, h);
                        }
                        other => return fail(prop, "C17.unique", format!("add_packet_handler failed: {:?}", other), "add-failed".to_string()),
                    }
                }
                if let Some(t) = twin.as_mut() {
                    let (o, f) = twin_reveal(t, own);
                    twin_own = o;
                    twin_foreign = f;
                }
                if n_rm >= 16 {
                    sim.probe("burst_of_16_or_more_removals_without_delivery");
                }
                pending_reveal = true;
            }
            // ------------------------- delivery with registrations from inside
            5 => {
                let p = gen_app_packet(sim, own, 0x900 + i);
                node.link.borrow_mut().rx.push_front(RxItem::Pkt(p.clone()));
                REG.with(|r| *r.borrow_mut() = Some((model.next_token, Vec::new())));
                let r = sut(|| node.proto.tick());
                let (next, made) = REG.with(|r| r.borrow_mut().take()).unwrap_or((model.next_token, Vec::new()));
                model.next_token = next;
                node.link.borrow_mut().rx.clear();
                let d = take_logs(&node);
                sim.event(EV_OP, 15, made.len() as u64, || format!("tick({}) with {} registration(s) made by handlers from inside the delivery -> {}", show_packet(&p), made.len(), show_perr(&r)));
                ops_log.push(format!("tick+{}adds", made.len()));
                if let Err(c) = &r {
                    return fail(prop, "C17.unique", format!("a delivery during which handlers register handlers crashed: {:?}", c), crash_sig("register-inside", c));
                }
                for (t, _, _) in &d.fired {
                    if model.dead.contains(t) {
                        return fail(prop, "C17.remove", format!("handler #{} was removed but was invoked again; history: {}", t, ops_log.join(" ")), "removed-handler-invoked".to_string());
                    }
                }
                for (new_token, res) in made {
                    match res {
                        Ok(id) => {
                            if let Some(h) = model.live.get(&id) {
                                return fail(
                                    prop,
                                    "C17.unique",
                                    format!(
                                        "add_packet_handler called by a handler from inside a delivery returned id {} which is the id of the live handler #{} (live ids: {:?}); history: {}",
                                        id,
                                        h.token,
                                        model.live.keys().collect::<Vec<_>>(),
                                        ops_log.join(" ")
                                    ),
                                    "duplicate-id-registered-inside-delivery".to_string(),
                                );
                            }
                            let h = MHandler { token: new_token, capture_all: false, beh: Beh::Plain, zst: None };
                            if let Some(t) = twin.as_mut() {
                                let b2 = make_handler(sim, "t", &h, &t.hlog);
                                let _ = sut(|| t.proto.add_packet_handler(b2, false));
                                let (o, f) = twin_reveal(t, own);
                                twin_own = o;
                                twin_foreign = f;
                            }
                            model.live.insert(id, h);
                            sim.probe("handler_registered_by_a_handler");
                        }
                        Err(e) => {
                            return fail(prop, "C17.unique", format!("add_packet_handler called from inside a delivery failed: {}", e), "add-failed".to_string());
                        }
                    }
                }
                pending_reveal = true;
            }
            // --------------------------------------------------- reveal
            _ => {
                // one own-address packet through tick, one through the loop-back path, and one
                // foreign-address packet through tick (for the capture-all handlers)
                let p1 = gen_app_packet(sim, own, 0x100 + i);
                let p2 = gen_app_packet(sim, own, 0x200 + i);
                let p3 = gen_app_packet(sim, other_addr_not_broadcast(sim, own), 0x280 + i);
                let mut fired_own: BTreeSet<u32> = BTreeSet::new();
                let mut fired_foreign: BTreeSet<u32> = BTreeSet::new();
                let mut dead_fired: Option<(u32, &'static str)> = None;
                // the order of the three deliveries varies from reveal to reveal
                let order: [u8; 3] = match sim.draw(3) {
                    0 => [0, 1, 2],
                    1 => [1, 0, 2],
                    _ => [2, 1, 0],
                };
                let mut d1o = None;
                let mut d2o = None;
                let mut d3o = None;
                for step in order {
                    match step {
                        0 => {
                            // tick path
                            node.link.borrow_mut().rx.push_front(RxItem::Pkt(p1.clone()));
                            let r1 = sut(|| node.proto.tick());
                            let d = take_logs(&node);
                            sim.event(EV_OP, 5, d.fired.len() as u64, || format!("reveal via tick({}) -> {}", show_packet(&p1), show_perr(&r1)));
                            d1o = Some(d);
                        }
                        1 => {
                            // loop-back path
                            node.link.borrow_mut().next_send_err = Some(None);
                            let r2 = sut(|| node.proto.send_packet(&p2));
                            node.link.borrow_mut().next_send_err = None;
                            let d = take_logs(&node);
                            sim.event(EV_OP, 6, d.fired.len() as u64, || format!("reveal via send_packet({}) -> {}", show_packet(&p2), show_perr(&r2)));
                            d2o = Some(d);
                        }
                        _ => {
                            // foreign-address packet through tick
                            node.link.borrow_mut().rx.push_front(RxItem::Pkt(p3.clone()));
                            let r3 = sut(|| node.proto.tick());
                            let d = take_logs(&node);
                            sim.event(EV_OP, 10, d.fired.len() as u64, || format!("reveal via tick({}) [foreign address] -> {}", show_packet(&p3), show_perr(&r3)));
                            d3o = Some(d);
                        }
                    }
                    // nothing of a reveal delivery may stay queued
                    node.link.borrow_mut().rx.clear();
                }
                let (d1, d2, d3) = (d1o.unwrap(), d2o.unwrap(), d3o.unwrap());
                for (d, via, own_path) in [(&d1, "tick", true), (&d2, "loop-back send", true), (&d3, "tick (foreign address)", false)] {
                    for (t, p, _) in d.fired.iter() {
                        // (handlers that transmit may be re-entered by a defect: only direct deliveries count)
                        if own_path && (packet_eq(p, &p1) || packet_eq(p, &p2)) {
                            fired_own.insert(*t);
                        }
                        if !own_path && packet_eq(p, &p3) {
                            fired_foreign.insert(*t);
                        }
                        if model.dead.contains(t) {
                            dead_fired = Some((*t, via));
                        }
                    }
                }
                if let Some((t, via)) = dead_fired {
                    return fail(
                        prop,
                        "C17.remove",
                        format!("handler #{} was removed but was invoked again (via {}); history: {}", t, via, ops_log.join(" ")),
                        "removed-handler-invoked".to_string(),
                    );
                }
                // A live handler must fire on at least one of the two own-address paths. One that
                // fired at an earlier reveal and no longer does was silenced by an operation on
                // another handler (history-dependent: C17). One that never fired at all is
                // attributed by asking the registry itself.
                for (_tok, id) in live_by_token(&model) {
                    let h = &model.live[&id];
                    if !fired_own.contains(&h.token) {
                        if prop == "C17" && seen_own.contains(&h.token) {
                            return fail(
                                prop,
                                "C17.keep",
                                format!(
                                    "handler #{} (id {}) was invoked for own-address packets earlier, was never removed, and is no longer invoked after operations on other handlers; history: {}",
                                    h.token,
                                    id,
                                    ops_log.join(" ")
                                ),
                                "live-handler-stopped-firing".to_string(),
                            );
                        }
                        if prop == "C17" && twin_own.contains(&h.token) {
                            return fail(
                                prop,
                                "C17.keep",
                                format!(
                                    "handler #{} (id {}) was registered and never removed but is not invoked; on a twin node that received the same registry operations, each followed at once by a delivery, it is invoked: it was lost to the sequence of registry operations; history: {}",
                                    h.token,
                                    id,
                                    ops_log.join(" ")
                                ),
                                "live-handler-depends-on-history".to_string(),
                            );
                        }
                        let r = sut(|| node.proto.remove_packet_handler(id));
                        return match r {
                            Ok(Ok(())) => fail(
                                prop,
                                "C15.fanout",
                                format!("handler #{} (id {}) is registered but fires neither on tick nor on loop-back for an own-address packet", h.token, id),
                                "eligible-handler-not-invoked".to_string(),
                            ),
                            other => fail(
                                prop,
                                "C17.keep",
                                format!(
                                    "handler #{} (id {}) was registered and never removed, but it does not fire and removing its id reports {:?}; history: {}",
                                    h.token,
                                    id,
                                    other,
                                    ops_log.join(" ")
                                ),
                                "live-handler-lost".to_string(),
                            ),
                        };
                    }
                    if prop == "C17"
                        && h.capture_all
                        && !fired_foreign.contains(&h.token)
                        && (seen_foreign.contains(&h.token) || twin_foreign.contains(&h.token))
                    {
                        return fail(
                            prop,
                            "C17.keep",
                            format!(
                                "capture-all handler #{} (id {}) was invoked for foreign-address packets earlier (here or on the twin node that gets a delivery after every registry operation), was never removed, and is not invoked for them after operations on other handlers; history: {}",
                                h.token,
                                id,
                                ops_log.join(" ")
                            ),
                            "capture-all-handler-stopped-firing".to_string(),
                        );
                    }
                }
                seen_own.extend(fired_own.iter().copied());
                seen_foreign.extend(fired_foreign.iter().copied());
                if prop == "C15" {
                    let exp = expected_tokens(&model, false);
                    if let Some((c, m, s)) = judge_fanout(&mut node, &model, Path::Tick, &p3, &exp, &d3) {
                        return fail(prop, c, m, s);
                    }
                }
                // the two reveal deliveries are ordinary deliveries for C15 / C16
                if prop == "C15" {
                    let exp = expected_tokens(&model, true);
                    if let Some((c, m, s)) = judge_fanout(&mut node, &model, Path::Tick, &p1, &exp, &d1) {
                        return fail(prop, c, m, s);
                    }
                }
                if prop == "C16" {
                    let exp = expected_tokens(&model, true);
                    if let Some((c, m, s)) = judge_fanout(&mut node, &model, Path::Loop, &p2, &exp, &d2) {
                        return fail(prop, c, m, s);
                    }
                }
                sim.count("reveal_steps");
            }
        }
        let caps = model.live.values().filter(|h| h.capture_all).count();
        sim.abstract_state((bucket(model.live.len()) << 8) | (bucket(caps) << 4) | (op.min(5)));
    }

    // ---- end of history: the registry agrees with the model about every id ever seen
    if prop == "C17" {
        let live_ids: Vec<u32> = live_by_token(&model).iter().map(|x| x.1).collect();
        let dead_ids: Vec<u32> = model.removed_ids.iter().copied().filter(|id| !model.live.contains_key(id)).collect();
        for id in dead_ids {
            match sut(|| node.proto.remove_packet_handler(id)) {
                Ok(Err(ProtocolError::NoSuchHandler)) => {}
                other => {
                    return fail(
                        prop,
                        "C17.nosuch",
                        format!("at the end of the history id {} is not registered but removing it returned {:?}", id, other),
                        "final-sweep-dead".to_string(),
                    )
                }
            }
        }
        for id in live_ids {
            match sut(|| node.proto.remove_packet_handler(id)) {
                Ok(Ok(())) => {}
                other => {
                    return fail(
                        prop,
                        "C17.keep",
                        format!(
                            "at the end of the history handler id {} should still be registered but removing it returned {:?}; history: {}",
                            id,
                            other,
                            ops_log.join(" ")
                        ),
                        "final-sweep-live".to_string(),
                    )
                }
            }
        }
    }
    if id_reused && model.live.len() >= 2 {
        sim.probe("id_reuse_with_neighbours");
    }
    sim.set_sample(|| format!("own={:04x} history: {}", own, ops_log.join(" ")));
    Outcome::Pass
}

/// A tick against a drawn link result, judged by C15's clauses.
fn op_tick(sim: &Sim, prop: &str, node: &mut Node, model: &Model, forced: Option<RxItem>) -> Option<Outcome> {
    let own = model.own;
    let echo = node.last_sent.borrow().clone();
    let item = forced.unwrap_or_else(|| match sim.draw(10) {
        0 if echo.is_some() && sim.chance(40) => {
            // the packet this node sent last comes back (a bus echoes, a peer mirrors)
            sim.probe("received_copy_of_last_sent_packet");
            RxItem::Pkt(echo.clone().unwrap())
        }
        0..=5 => {
            let addr = match sim.draw(4) {
                0 => own,
                1 => BROADCAST_ADDRESS,
                _ => other_addr(sim, own),
            };
            RxItem::Pkt(gen_app_packet(sim, addr, 0x300 + sim.draw(64)))
        }
        6 | 7 => RxItem::Nothing,
        _ => RxItem::Err(sim.draw(N_ERR_KINDS)),
    });
    // sometimes a second packet is already queued behind it: a tick must leave it there
    let queued_behind = if sim.chance(30) {
        let q = gen_app_packet(sim, own, 0x400 + sim.draw(64));
        node.link.borrow_mut().rx.push_front(RxItem::Pkt(q.clone()));
        Some(q)
    } else {
        None
    };
    node.link.borrow_mut().rx.push_front(item.clone());
    let taken_before = node.link.borrow().pkts_taken;
    let r = sut(|| node.proto.tick());
    let d = take_logs(node);
    let taken = node.link.borrow().pkts_taken - taken_before;
    sim.event(EV_OP, 3, d.fired.len() as u64, || format!("tick [link holds {:?}] -> {}", item, show_perr(&r)));
    // drop whatever this op left queued so that ops stay independent
    let left_behind: Vec<RxItem> = node.link.borrow_mut().rx.drain(..).collect();
    if prop != "C15" {
        // other checks only watch for removed handlers being invoked
        for (t, _, _) in &d.fired {
            if model.dead.contains(t) {
                return Some(fail(prop, "C17.remove", format!("handler #{} was removed but was invoked by a tick", t), "removed-handler-invoked".to_string()));
            }
        }
        return None;
    }
    if let Err(c) = &r {
        return Some(fail(prop, "C15.fanout", format!("tick crashed: {:?}", c), crash_sig("tick", c)));
    }
    if taken > 1 {
        return Some(fail(
            prop,
            "C15.one",
            format!("one tick took {} packets from the link", taken),
            "took-more-than-one".to_string(),
        ));
    }
    if let Some(q) = &queued_behind {
        let still = matches!(left_behind.first(), Some(RxItem::Pkt(p)) if packet_eq(p, q));
        if !still {
            return Some(fail(
                prop,
                "C15.one",
                format!("a packet queued behind the first one was consumed or lost by a single tick: {}", show_packet(q)),
                "queued-packet-consumed".to_string(),
            ));
        }
        sim.probe("second_packet_left_queued");
    }
    match &item {
        RxItem::Pkt(p) => {
            let owned = p.device_address == own || p.device_address == BROADCAST_ADDRESS;
            let exp = expected_tokens(model, owned);
            if let Some((c, m, s)) = judge_fanout(node, model, Path::Tick, p, &exp, &d) {
                return Some(fail(prop, c, m, s));
            }
            if !matches!(r, Ok(Ok(()))) {
                return Some(fail(
                    prop,
                    "C15.fanout",
                    format!("tick returned {} after delivering {}", show_perr(&r), show_packet(p)),
                    "tick-result-after-delivery".to_string(),
                ));
            }
            // re-entrant transmissions of the eligible handlers
            let want = expected_reent(model, &exp);
            let got: Vec<Packet> = d.sent.iter().map(|(p, _, _)| p.clone()).collect();
            // every transmission made by an eligible handler must reach the link (how often a
            // packet is handed to the link is C16's subject, not C15's)
            if !multiset_included(&want, &got) {
                return Some(fail(
                    prop,
                    "C15.reent",
                    format!(
                        "handlers transmitting from inside the delivery: expected on the link [{}], found [{}]",
                        want.iter().map(show_packet).collect::<Vec<_>>().join(", "),
                        got.iter().map(show_packet).collect::<Vec<_>>().join(", ")
                    ),
                    "reentrant-send".to_string(),
                ));
            }
            if !want.is_empty() && exp.len() >= 2 {
                sim.probe("reentrant_send_with_other_handlers");
            }
            if owned && p.device_address == BROADCAST_ADDRESS && own != BROADCAST_ADDRESS {
                sim.probe("broadcast_packet_delivered");
            }
            if !owned && exp.len() < model.live.len() && !exp.is_empty() {
                sim.probe("foreign_packet_to_capture_all_only");
            }
            if own == BROADCAST_ADDRESS {
                sim.probe("own_is_broadcast");
            }
        }
        RxItem::Nothing => {
            if !matches!(r, Ok(Ok(()))) || !d.fired.is_empty() {
                return Some(fail(
                    prop,
                    "C15.nopkt",
                    format!("'nothing received' must be a success without handler calls; tick returned {} and {} handler call(s) happened", show_perr(&r), d.fired.len()),
                    "nothing-received".to_string(),
                ));
            }
            sim.probe("tick_on_nothing");
        }
        RxItem::Err(k) => {
            let want = format!("{:?}", make_iface_err(*k));
            let ok = match &r {
                Ok(Err(ProtocolError::InterfaceError(e))) => format!("{:?}", e) == want,
                _ => false,
            };
            if !ok || !d.fired.is_empty() {
                return Some(fail(
                    prop,
                    "C15.err",
                    format!("link error {} must be returned to the caller without handler calls; tick returned {} and {} handler call(s) happened", want, show_perr(&r), d.fired.len()),
                    "link-error".to_string(),
                ));
            }
            sim.probe("tick_on_link_error");
        }
    }
    None
}

/// A send against a drawn link outcome, judged by C16's clauses.
fn op_send(sim: &Sim, prop: &str, node: &mut Node, model: &Model, forced: Option<(Packet, Option<u32>)>) -> Option<Outcome> {
    let own = model.own;
    // a chain of nested own-address sends (see Beh::SelfSender)
    if forced.is_none() && model.live.values().any(|h| matches!(h.beh, Beh::SelfSender(_))) && sim.chance(35) {
        return op_send_chain(sim, prop, node, model);
    }
    let (p, outcome) = forced.unwrap_or_else(|| {
        let addr = match sim.draw(4) {
            0 => own,
            1 => BROADCAST_ADDRESS,
            _ => other_addr(sim, own),
        };
        let p = gen_app_packet(sim, addr, 0x500 + sim.draw(64));
        let outcome = if sim.chance(25) { Some(sim.draw(N_SEND_ERR_KINDS)) } else { None };
        (p, outcome)
    });
    // the outcome applies to the transmission of `p` itself; handlers that transmit
    // from a loop-back delivery run first and get Ok
    let loops = p.device_address == own;
    let transmits = !loops || own == BROADCAST_ADDRESS;
    let has_senders = model.live.values().any(|h| matches!(h.beh, Beh::Sender(_) | Beh::SelfSender(_)));
    if loops && has_senders {
        // cannot force "the next send" when handlers send first: use a clean link
        node.link.borrow_mut().next_send_err = None;
        node.link.borrow_mut().send_err_pct = 0;
    } else {
        node.link.borrow_mut().next_send_err = Some(outcome);
    }
    let outcome = if loops && has_senders { None } else { outcome };
    // sometimes received traffic is pending on the link at the moment of the send: sending
    // must neither consume it nor hand it to the handlers
    let pending_rx = if sim.chance(30) {
        let q = gen_app_packet(sim, own, 0x700 + sim.draw(64));
        node.link.borrow_mut().rx.push_back(RxItem::Pkt(q.clone()));
        Some(q)
    } else {
        None
    };
    let r = sut(|| node.proto.send_packet(&p));
    node.link.borrow_mut().next_send_err = None;
    let d = take_logs(node);
    let rx_left: Vec<RxItem> = node.link.borrow_mut().rx.drain(..).collect();
    sim.event(EV_OP, 4, d.fired.len() as u64, || format!("send_packet({}) [link outcome {:?}] -> {}", show_packet(&p), outcome.map(make_iface_err), show_perr(&r)));
    if prop != "C16" {
        for (t, _, _) in &d.fired {
            if model.dead.contains(t) {
                return Some(fail(prop, "C17.remove", format!("handler #{} was removed but was invoked by a loop-back send", t), "removed-handler-invoked".to_string()));
            }
        }
        return None;
    }
    if let Err(c) = &r {
        return Some(fail(prop, "C16.tx", format!("send_packet crashed: {:?}", c), crash_sig("send", c)));
    }
    if let Some(q) = &pending_rx {
        // (whether a send may silently *take* pending input is not C16's subject; handing
        // it to local handlers is: "invokes no local handler" / "exactly once ... the packet")
        if d.fired.iter().any(|(_, x, _)| packet_eq(x, q) && !packet_eq(x, &p)) {
            return Some(fail(
                prop,
                "C16.tx",
                format!(
                    "send_packet({}) handed received traffic that was pending on the link ({}) to local handlers: sending routes the packet being sent and nothing else",
                    show_packet(&p),
                    show_packet(q)
                ),
                "send-dispatched-received-traffic".to_string(),
            ));
        }
        let _ = &rx_left;
        sim.probe("send_with_received_traffic_pending");
    }
    let exp = if loops { expected_tokens(model, true) } else { BTreeSet::new() };
    if let Some((c, m, s)) = judge_fanout(node, model, Path::Loop, &p, &exp, &d) {
        return Some(fail(prop, c, m, s));
    }
    // what reached the link: the packet itself (iff it is to be transmitted) plus what
    // loop-back handlers transmitted themselves
    let mut want: Vec<Packet> = expected_reent(model, &exp);
    if transmits {
        want.push(p.clone());
    }
    let got: Vec<Packet> = d.sent.iter().map(|(p, _, _)| p.clone()).collect();
    if !multiset_eq(&want, &got) {
        let clause = if loops { "C16.loop" } else { "C16.tx" };
        return Some(fail(
            prop,
            clause,
            format!(
                "send_packet({}) with own address {:04x}: expected on the link [{}], found [{}]",
                show_packet(&p),
                own,
                want.iter().map(show_packet).collect::<Vec<_>>().join(", "),
                got.iter().map(show_packet).collect::<Vec<_>>().join(", ")
            ),
            if got.len() > want.len() { "transmitted-too-much" } else { "not-transmitted" }.to_string(),
        ));
    }
    // result
    match (transmits, outcome) {
        (true, Some(k)) => {
            let wantd = format!("{:?}", make_iface_err(k));
            let ok = match &r {
                Ok(Err(ProtocolError::InterfaceError(e))) => format!("{:?}", e) == wantd,
                _ => false,
            };
            if !ok {
                return Some(fail(
                    prop,
                    "C16.err",
                    format!("the link refused the packet with {} but send_packet returned {}", wantd, show_perr(&r)),
                    "send-error-not-returned".to_string(),
                ));
            }
            sim.probe("send_error_returned");
        }
        _ => {
            if !matches!(r, Ok(Ok(()))) {
                return Some(fail(
                    prop,
                    "C16.ok",
                    format!("send_packet({}) returned {} although nothing failed", show_packet(&p), show_perr(&r)),
                    "spurious-send-error".to_string(),
                ));
            }
        }
    }
    if loops && own == BROADCAST_ADDRESS {
        sim.probe("loopback_and_transmit_own_is_broadcast");
    } else if loops {
        sim.probe("loopback_only");
    } else if p.device_address == BROADCAST_ADDRESS {
        sim.probe("broadcast_destination_transmitted");
    } else {
        sim.probe("transmitted_to_other");
    }
    None
}

/// A send to the own address that a handler continues n levels deep: every level is a send
/// of its own and must reach the local handlers (and the link iff the own address is the
/// broadcast address). Judged by C16's clauses, at the return of the outermost send. The
/// handler that continues the chain is *running* while the nested sends are made: whether a
/// nested delivery re-enters a running handler, skips it or defers it is left open (re-entering
/// a running `FnMut` is not something an implementation can be required to do); every other
/// handler must see every level that was sent exactly once.
fn op_send_chain(sim: &Sim, prop: &str, node: &mut Node, model: &Model) -> Option<Outcome> {
    let own = model.own;
    let ttl = sim.pick(&[3u8, 1, 8, 9, 12, 20, 40]);
    let tag = sim.draw(250) as u8;
    let level = |n: u8| Packet {
        is_error: false,
        device_address: own,
        data: vec![0x7a, n, tag, 0x11],
    };
    node.link.borrow_mut().next_send_err = None;
    node.link.borrow_mut().send_err_pct = 0;
    let p = level(ttl);
    CHAIN.with(|c| *c.borrow_mut() = Some(vec![ttl]));
    let r = sut(|| node.proto.send_packet(&p));
    let levels_sent: Vec<u8> = CHAIN.with(|c| c.borrow_mut().take()).unwrap_or_default();
    let d = take_logs(node);
    sim.event(EV_OP, 13, d.fired.len() as u64, || {
        format!(
            "send_packet({}) [continued by a handler: levels sent {:?}] -> {}; {} handler calls",
            show_packet(&p),
            levels_sent,
            show_perr(&r),
            d.fired.len()
        )
    });
    for (t, _, _) in &d.fired {
        if model.dead.contains(t) {
            return Some(fail(prop, "C17.remove", format!("handler #{} was removed but was invoked by a loop-back send", t), "removed-handler-invoked".to_string()));
        }
    }
    if prop != "C16" {
        return None;
    }
    if let Err(c) = &r {
        return Some(fail(prop, "C16.tx", format!("send_packet crashed: {:?}", c), crash_sig("send", c)));
    }
    let exp = expected_tokens(model, true);
    let runner: Option<u32> = model.live.values().find(|h| matches!(h.beh, Beh::SelfSender(_))).map(|h| h.token);
    for (i, n) in levels_sent.iter().enumerate() {
        let pl = level(*n);
        let mut seen: BTreeMap<u32, u32> = BTreeMap::new();
        for (t, q, _) in &d.fired {
            if packet_eq(q, &pl) {
                *seen.entry(*t).or_insert(0) += 1;
            }
        }
        // the outermost send (i == 0) is an ordinary send: every handler once; at nested levels
        // the running handler may be re-entered, skipped or deferred (0 or 1 calls)
        let ok = exp.iter().all(|t| {
            let k = seen.get(t).copied().unwrap_or(0);
            if i > 0 && Some(*t) == runner {
                k <= 1
            } else {
                k == 1
            }
        }) && seen.keys().all(|t| exp.contains(t));
        if !ok {
            return Some(fail(
                prop,
                "C16.loop",
                format!(
                    "a send to the own address {:04x} made by handler #{:?} {} level(s) deep inside the delivery of an earlier own-address send: the packet {} must reach each of the other {} local handler(s) exactly once; handler calls per handler: {:?}",
                    own,
                    runner,
                    i,
                    show_packet(&pl),
                    exp.len().saturating_sub(1),
                    seen
                ),
                "nested-own-address-send".to_string(),
            ));
        }
    }
    if d.fired.iter().any(|(_, q, _)| !(q.data.len() == 4 && q.data[0] == 0x7a && q.data[2] == tag && levels_sent.contains(&q.data[1]))) {
        return Some(fail(prop, "C16.loop", "a handler observed a packet that is no level of the chain".to_string(), "nested-own-address-send".to_string()));
    }
    // the link: every level that was sent iff the own address is the broadcast address, plus
    // what the transmitting handlers sent at every level
    let mut want: Vec<Packet> = Vec::new();
    for n in &levels_sent {
        want.extend(expected_reent(model, &exp));
        if own == BROADCAST_ADDRESS {
            want.push(level(*n));
        }
    }
    let got: Vec<Packet> = d.sent.iter().map(|(p, _, _)| p.clone()).collect();
    if !multiset_eq(&want, &got) {
        return Some(fail(
            prop,
            "C16.loop",
            format!(
                "a chain of {} nested own-address sends (own address {:04x}): expected {} packets on the link, found {}",
                levels_sent.len(),
                own,
                want.len(),
                got.len()
            ),
            if got.len() > want.len() { "transmitted-too-much" } else { "not-transmitted" }.to_string(),
        ));
    }
    if !matches!(r, Ok(Ok(()))) {
        return Some(fail(prop, "C16.ok", format!("send_packet({}) returned {} although nothing failed", show_packet(&p), show_perr(&r)), "spurious-send-error".to_string()));
    }
    if levels_sent.len() >= 9 && exp.len() >= 2 {
        sim.probe("nested_own_address_sends_over_8_deep");
    }
    sim.probe("nested_own_address_sends");
    None
}

// ------------------------------------------------------------- exchange ----

/// What an exchange must do with a given incoming queue (reference model).
struct ExModel {
    events: Vec<String>,
    /// queue entries taken from the link
    consumed: usize,
    /// calls of try_get_packet (one more than `consumed` when the queue itself ran out)
    polls: usize,
    err: Option<u32>,
    timeout: bool,
}

fn model_exchange(sim: &Sim, queue: &[RxItem], own: u16, kind: u32, capture: bool, multi_form: bool) -> Result<ExModel, Outcome> {
    let mut m = ExModel { events: Vec::new(), consumed: 0, polls: 0, err: None, timeout: false };
    let mut hit_end = true;
    for (idx, it) in queue.iter().enumerate() {
        m.consumed = idx + 1;
        match it {
            RxItem::Nothing => {
                hit_end = false;
                break;
            }
            RxItem::Err(k) => {
                m.err = Some(*k);
                hit_end = false;
                break;
            }
            RxItem::Pkt(p) => {
                let pass = capture || p.device_address == own || p.device_address == BROADCAST_ADDRESS;
                let dec = match ref_decode(kind, p) {
                    Ok(d) => d,
                    Err(e) => return Err(Outcome::Foreign("C05.total", e)),
                };
                match dec {
                    Some(ev) if pass => {
                        m.events.push(ev);
                        if !multi_form {
                            hit_end = false;
                            break;
                        }
                    }
                    Some(_) => sim.count("exchange_skipped_wrong_address"),
                    None => sim.count("exchange_skipped_nonmatching"),
                }
            }
        }
    }
    if hit_end {
        m.consumed = queue.len();
        m.polls = queue.len() + 1;
    } else {
        m.polls = m.consumed;
    }
    if !multi_form && m.events.is_empty() && m.err.is_none() {
        m.timeout = true;
    }
    Ok(m)
}

/// Kind, capture mode and form of the exchange a handler with behaviour `Exchanger` performs.
const INNER_KIND: u32 = 3; // AckEvent

fn run_exchange(sim: &Sim, prop: &str, tier: Tier) -> Outcome {
    let own = own_address(sim, &[0x0101u16, 0xffff, 0x0000, 0x8000]);
    // two identical nodes: X performs the exchange, Y performs an ordinary send of the
    // same request - "routes the request exactly like an ordinary send" is checked
    // against the implementation's own send, not against C16's model
    let mut x = new_node(sim, "x", own);
    let mut y = new_node(sim, "y", own);
    let n_handlers = sim.draw(4);
    let mut hs: Vec<MHandler> = Vec::new();
    // at most one handler of the table performs an exchange of its own when it is invoked
    let mut exchanger: Option<u32> = None;
    for t in 0..n_handlers {
        let capture_all = sim.flag();
        let beh = if exchanger.is_none() && sim.chance(8) {
            exchanger = Some(t + 1);
            Beh::Exchanger
        } else if sim.chance(20) {
            let dest = other_addr(sim, own);
            Beh::Sender(Packet {
                is_error: false,
                device_address: if dest == own { dest ^ 1 } else { dest },
                data: vec![0x7d, t as u8, 0x55],
            })
        } else {
            Beh::Plain
        };
        let h = MHandler { token: t + 1, capture_all, beh, zst: None };
        for n in [&mut x, &mut y] {
            let b = make_handler(sim, n.name, &h, &n.hlog);
            if !matches!(sut(|| n.proto.add_packet_handler(b, capture_all)), Ok(Ok(_))) {
                return Outcome::Foreign("C17.unique", "add_packet_handler failed".to_string());
            }
        }
        hs.push(h);
    }

    let n_rounds = 1 + sim.draw(match tier {
        Tier::Quick => 2,
        Tier::Thorough => 4,
    });
    for _round in 0..n_rounds {
        sim.idle_gap();
        // the requested kind: one of the library's sixteen, or an application-defined one
        let kind = if sim.chance(12) {
            sim.probe("exchange_application_defined_kind");
            N_KINDS + sim.draw(N_APP_KINDS)
        } else {
            sim.draw(N_KINDS)
        };
        let multi_form = sim.flag();
        let capture = sim.flag();
        let req_addr = match sim.draw(4) {
            0 => own,
            1 => BROADCAST_ADDRESS,
            _ => other_addr(sim, own),
        };
        let request = if sim.chance(30) {
            // a request that is itself a value of the requested kind (its echo would match)
            match gen_kind_packet(sim, kind, req_addr, 0) {
                Ok(mut p) => {
                    p.device_address = req_addr;
                    sanitize(&mut p);
                    if kind == 4 && p.data.len() < 6 {
                        p.data.resize(6, 0xee);
                    }
                    p
                }
                Err(e) => return Outcome::Foreign("C03.encode", e),
            }
        } else {
            gen_app_packet(sim, req_addr, 0x600 + sim.draw(64))
        };
        let loop_tx = has_loop_senders(&hs, req_addr, own);
        let send_fails = if loop_tx {
            // handlers transmit before the request itself: the outcome of "the next send" cannot be pinned
            None
        } else if req_addr != own || own == BROADCAST_ADDRESS {
            if sim.chance(15) {
                Some(sim.draw(N_SEND_ERR_KINDS))
            } else {
                None
            }
        } else {
            None
        };
        // ---- the incoming queue
        let n_in = if sim.draw(3000) == 2999 {
            // more replies than any fixed-size reply buffer, counter or size budget expects
            sim.probe("exchange_queue_over_4096_entries");
            sim.pick(&[5000u32, 12000])
        } else if sim.chance(3) {
            // a long backlog ("all finite queues")
            sim.probe("exchange_long_queue");
            sim.pick(&[65u32, 70, 130, 300])
        } else {
            sim.draw(match tier {
                Tier::Quick => 9,
                Tier::Thorough => 13,
            })
        };
        let huge = n_in > 1000;
        let mut queue: Vec<RxItem> = Vec::new();
        for _ in 0..n_in {
            let c = sim.draw(if huge { 8000 } else { 20 });
            let item = if c == 19 {
                RxItem::Nothing
            } else {
                let k = if sim.chance(if huge { 95 } else { 55 }) { kind } else { sim.draw(N_KINDS + N_APP_KINDS) };
                let to = match sim.draw(5) {
                    0 | 1 => own,
                    2 => BROADCAST_ADDRESS,
                    _ => other_addr(sim, own),
                };
                let mut p = match gen_kind_packet(sim, k, to, sim.u8_any()) {
                    Ok(p) => p,
                    Err(e) => return Outcome::Foreign("C03.encode", e),
                };
                // the hello announcements are always broadcast; re-address some of them
                if sim.chance(20) {
                    p.device_address = to;
                }
                if sim.chance(12) {
                    // the other error type (for the library's kinds: an error packet, which none of them accepts)
                    p.is_error = !p.is_error;
                }
                if sim.chance(8) && !p.data.is_empty() {
                    // damaged: wrong length for its kind
                    if sim.flag() {
                        p.data.pop();
                    } else {
                        p.data.push(0x00);
                    }
                }
                sanitize(&mut p);
                // the data-event decoder indexes before checking the length (C05's subject):
                // packets shorter than its header are not shown to it
                if kind == 4 && p.data.len() < 6 {
                    p.data.resize(6, 0xee);
                }
                RxItem::Pkt(p)
            };
            queue.push(item);
        }
        if sim.chance(12) {
            // the request itself comes back (echo): it is a received packet like any other
            let mut echo = request.clone();
            if kind == 4 && echo.data.len() < 6 {
                echo.data.resize(6, 0xee);
            }
            sanitize(&mut echo);
            let at = sim.draw(queue.len() as u32 + 1) as usize;
            queue.insert(at, RxItem::Pkt(echo));
            sim.probe("exchange_queue_contains_echo_of_request");
        }
        if sim.chance(20) {
            queue.push(RxItem::Err(sim.draw(N_ERR_KINDS)));
        }
        // sometimes more traffic sits behind the point where polling must stop
        let tail = sim.draw(3);
        for _ in 0..tail {
            match gen_kind_packet(sim, kind, own, 0) {
                Ok(mut p) => {
                    sanitize(&mut p);
                    if kind == 4 && p.data.len() < 6 {
                        p.data.resize(6, 0xee);
                    }
                    queue.push(RxItem::Pkt(p))
                }
                Err(e) => return Outcome::Foreign("C03.encode", e),
            }
        }
        // the inner exchange of an `Exchanger` handler asks for acknowledgements: packets
        // shown to it must be safe for that decoder as well (they are: only the message and
        // data decoders have undefined corners, and neither is the inner kind)

        // ---- reference: an ordinary send of the same request on the twin node (with the same
        // traffic waiting on its link: a handler that performs an exchange of its own polls it)
        let inner_runs = exchanger.is_some() && req_addr == own;
        y.link.borrow_mut().rx = if inner_runs { queue.iter().cloned().collect() } else { VecDeque::new() };
        y.link.borrow_mut().next_send_err = if loop_tx { None } else { Some(send_fails) };
        let ry = sut(|| y.proto.send_packet(&request));
        y.link.borrow_mut().next_send_err = None;
        y.link.borrow_mut().rx.clear();
        let dy = take_logs(&y);
        let nested_y: Vec<(u32, String, u32)> = std::mem::take(&mut y.hlog.borrow_mut().nested);

        if let Err(c) = &ry {
            return Outcome::Foreign("C16.tx", format!("ordinary send crashed: {:?}", c));
        }
        // whether the request could be routed is taken from the ordinary send itself
        let send_failed = matches!(ry, Ok(Err(_)));

        // ---- model: what must come back, and what must remain on the link
        // (a handler's own exchange runs during the routing and takes its part of the queue first)
        let inner: Option<ExModel> = if inner_runs {
            match model_exchange(sim, &queue, own, INNER_KIND, false, false) {
                Ok(m) => Some(m),
                Err(o) => return o,
            }
        } else {
            None
        };
        let inner_consumed = inner.as_ref().map(|m| m.consumed).unwrap_or(0);
        let outer = if !send_failed {
            match model_exchange(sim, &queue[inner_consumed..], own, kind, capture, multi_form) {
                Ok(m) => m,
                Err(o) => return o,
            }
        } else {
            ExModel { events: Vec::new(), consumed: 0, polls: 0, err: None, timeout: false }
        };
        let consumed = inner_consumed + outer.consumed;
        let remaining: Vec<RxItem> = queue[consumed..].to_vec();
        let (expect_err, expect_timeout) = (outer.err, outer.timeout);

        // ---- the exchange
        // "time passes" in the wait callback: in some exchanges the last entries of the queue
        // arrive only then (replies that come in while the caller waits) instead of sitting on
        // the link from the start
        let held_back = if !inner_runs && !queue.is_empty() && sim.chance(30) {
            sim.probe("replies_arrive_during_the_wait");
            1 + sim.draw(queue.len().min(4) as u32) as usize
        } else {
            0
        };
        let arrive_later: RefCell<Vec<RxItem>> = RefCell::new(queue[queue.len() - held_back..].to_vec());
        let link_for_wait = x.link.clone();
        x.link.borrow_mut().rx = queue[..queue.len() - held_back].iter().cloned().collect();
        x.link.borrow_mut().next_send_err = if loop_tx { None } else { Some(send_fails) };
        x.link.borrow_mut().get_calls.clear();
        let waits: Rc<Cell<u32>> = Rc::new(Cell::new(0));
        let wait_seq: Rc<Cell<u64>> = Rc::new(Cell::new(0));
        let first_wait_seq: Rc<Cell<u64>> = Rc::new(Cell::new(0));
        let (w2, ws2, fw2, sim2) = (waits.clone(), wait_seq.clone(), first_wait_seq.clone(), sim.clone());
        let wait = move || {
            let _g = crate::alloc::SimDomain::enter();
            // (time passes while the caller waits)
            sim2.idle_gap();
            let late: Vec<RxItem> = std::mem::take(&mut *arrive_later.borrow_mut());
            sim2.event(EV_OP, 7, late.len() as u64, || format!("wait callback runs ({} more entries arrive on the link meanwhile)", late.len()));
            link_for_wait.borrow_mut().rx.extend(late);
            if w2.get() == 0 {
                fw2.set(sim2.steps());
            }
            w2.set(w2.get() + 1);
            ws2.set(sim2.steps());
        };
        sim.event(EV_OP, 8, kind as u64, || {
            format!(
                "exchange_packet{}::<{}>(request {}, capture_all={}) own={:04x} incoming queue of {}",
                if multi_form { "s" } else { "" },
                kind_name(kind),
                show_packet(&request),
                capture,
                own,
                queue.len()
            )
        });
        // result rendered as (ok events as debug strings | error text)
        let req2 = request.clone();
        let got: Result<Result<Vec<String>, ProtocolError>, Crash> = with_kind!(kind, T => {
            if multi_form {
                sut(|| x.proto.exchange_packets::<_, T>(req2, capture, wait).map(|v| v.iter().map(|e| format!("{:?}", e)).collect()))
            } else {
                sut(|| x.proto.exchange_packet::<_, T>(req2, capture, wait).map(|e| vec![format!("{:?}", e)]))
            }
        });
        x.link.borrow_mut().next_send_err = None;
        let dx = take_logs(&x);
        let nested_x: Vec<(u32, String, u32)> = std::mem::take(&mut x.hlog.borrow_mut().nested);
        let left: Vec<RxItem> = x.link.borrow_mut().rx.drain(..).collect();
        let get_calls = x.link.borrow().get_calls.clone();
        sim.event(EV_OP, 9, left.len() as u64, || {
            let shown = match &got {
                Ok(Ok(v)) if v.len() > 6 => format!("Ok([{} values: {}, ...])", v.len(), v[..3].join(", ")),
                other => format!("{:?}", other),
            };
            format!("exchange -> {}   ({} entries left on the link)", shown, left.len())
        });

        let got = match got {
            Ok(g) => g,
            Err(c) => {
                return fail(
                    prop,
                    "C18.first",
                    format!("exchange crashed: {:?}", c),
                    crash_sig("exchange", &c),
                )
            }
        };
        // ---- an exchange performed by a handler while the request was being routed is an
        // exchange like any other (on the twin node it ran inside an ordinary send)
        if let Some(im) = &inner {
            let want = if let Some(k) = im.err {
                format!("Err(InterfaceError({:?}))", make_iface_err(k))
            } else if im.timeout {
                "Err(PacketTimeout)".to_string()
            } else {
                format!("Ok({})", im.events[0])
            };
            for (who, nested) in [("inside an ordinary send", &nested_y), ("inside the routing step of another exchange", &nested_x)] {
                if nested.len() != 1 {
                    // the handler did not run (or ran twice): a routing matter, judged below / by C16
                    continue;
                }
                let (tok, gotn, nwaits) = &nested[0];
                if *gotn != want || *nwaits != 1 {
                    return fail(
                        prop,
                        if im.err.is_some() { "C18.err" } else if im.timeout { "C18.timeout" } else { "C18.first" },
                        format!(
                            "handler #{} performed exchange_packet::<Ack> (capture_all=false, own {:04x}) {} with {} entries waiting on the link: expected {} with the wait callback run once, got {} with the wait callback run {} time(s)",
                            tok,
                            own,
                            who,
                            queue.len(),
                            want,
                            gotn,
                            nwaits
                        ),
                        "exchange-from-handler".to_string(),
                    );
                }
            }
            sim.probe("exchange_performed_by_handler_during_routing");
        }
        // C18.route: same local deliveries and same transmissions as the ordinary send. The
        // routing part of the exchange is what happens before the wait callback runs; what an
        // implementation does with received packets while it polls (e.g. handing non-matching
        // ones to the handlers) is not constrained by the property and is not compared - except
        // that the request itself must not be transmitted a second time.
        let cut = if waits.get() >= 1 { first_wait_seq.get() } else { u64::MAX };
        let fy: Vec<(u32, u64)> = dy.fired.iter().map(|(t, p, _)| (*t, hash_packet(p))).collect();
        let sy: Vec<Packet> = dy.sent.iter().map(|(p, _, _)| p.clone()).collect();
        let fx_all: Vec<(u32, u64)> = dx.fired.iter().map(|(t, p, _)| (*t, hash_packet(p))).collect();
        let sx_all: Vec<Packet> = dx.sent.iter().map(|(p, _, _)| p.clone()).collect();
        let fx: Vec<(u32, u64)> = dx.fired.iter().filter(|f| f.2 < cut).map(|(t, p, _)| (*t, hash_packet(p))).collect();
        let sx: Vec<Packet> = dx.sent.iter().filter(|s| s.2 < cut).map(|(p, _, _)| p.clone()).collect();
        let same_effects = |f: &Vec<(u32, u64)>, s: &Vec<Packet>| {
            let mut a = f.clone();
            let mut b = fy.clone();
            a.sort();
            b.sort();
            a == b && multiset_eq(s, &sy)
        };
        if !same_effects(&fx, &sx) {
            if waits.get() >= 1 && same_effects(&fx_all, &sx_all) {
                return fail(
                    prop,
                    "C18.wait",
                    format!(
                        "the wait callback ran at event {} before the routing of the request {} was finished (handler calls / transmissions of the routing happened after it)",
                        cut,
                        show_packet(&request)
                    ),
                    "wait-position".to_string(),
                );
            }
            return fail(
                prop,
                "C18.route",
                format!(
                    "the request {} (own {:04x}) was routed differently by the exchange than by an ordinary send: handlers {:?} vs {:?}; on the link [{}] vs [{}]",
                    show_packet(&request),
                    own,
                    fx.iter().map(|f| f.0).collect::<Vec<_>>(),
                    fy.iter().map(|f| f.0).collect::<Vec<_>>(),
                    sx.iter().map(show_packet).collect::<Vec<_>>().join(", "),
                    sy.iter().map(show_packet).collect::<Vec<_>>().join(", ")
                ),
                "routed-differently".to_string(),
            );
        }
        if dx.sent.iter().any(|s| s.2 >= cut && packet_eq(&s.0, &request)) {
            return fail(
                prop,
                "C18.route",
                format!("the request {} was handed to the link again after the wait callback had run (an ordinary send transmits it once)", show_packet(&request)),
                "request-sent-again".to_string(),
            );
        }
        if send_failed {
            // the routing failed: the error is returned, nothing else happens
            let same = match (&got, &ry) {
                (Err(a), Ok(Err(b))) => format!("{:?}", a) == format!("{:?}", b),
                _ => false,
            };
            if !same {
                return fail(
                    prop,
                    "C18.err",
                    format!("the request could not be sent ({}) but the exchange returned {:?}", show_perr(&ry), got),
                    "send-error-not-returned".to_string(),
                );
            }
            if waits.get() != 0 || !get_calls.is_empty() {
                return fail(
                    prop,
                    "C18.wait",
                    format!("after a failed send the exchange still waited ({}x) or polled ({}x)", waits.get(), get_calls.len()),
                    "waited-after-failed-send".to_string(),
                );
            }
            sim.probe("exchange_send_error");
            continue;
        }
        // C18.wait: exactly once, after the routing effects, before the first poll
        // (that it ran after the routing effects was established above: they all precede it;
        // polls made before it can only be those of a handler's own exchange)
        let last_route = dx.fired.iter().filter(|f| f.2 < cut).map(|f| f.2).chain(dx.sent.iter().filter(|s| s.2 < cut).map(|s| s.2)).max().unwrap_or(0);
        let pre_polls = get_calls.iter().filter(|g| **g < cut).count();
        let want_pre_polls = if nested_x.len() == 1 { inner.as_ref().map(|m| m.polls).unwrap_or(0) } else { 0 };
        let first_get = get_calls.iter().copied().find(|g| *g > cut).unwrap_or(u64::MAX);
        if waits.get() != 1 || wait_seq.get() <= last_route || wait_seq.get() >= first_get || (waits.get() == 1 && pre_polls != want_pre_polls) {
            return fail(
                prop,
                "C18.wait",
                format!(
                    "the wait callback ran {} time(s) at event {}; the request's routing ended at event {}, the link was polled {} time(s) before the wait callback ({} expected) and first polled after it at event {}",
                    waits.get(),
                    wait_seq.get(),
                    last_route,
                    pre_polls,
                    want_pre_polls,
                    if first_get == u64::MAX { "never".to_string() } else { first_get.to_string() }
                ),
                if waits.get() != 1 { "wait-count" } else { "wait-position" }.to_string(),
            );
        }
        // results
        let want_strings: &Vec<String> = &outer.events;
        let brief = |v: &Vec<String>| -> String {
            if v.len() > 8 {
                format!("[{} values: {}, ... {}]", v.len(), v[..3].join(", "), v[v.len() - 1])
            } else {
                format!("{:?}", v)
            }
        };
        if let Some(k) = expect_err {
            let wantd = format!("{:?}", make_iface_err(k));
            let ok = matches!(&got, Err(ProtocolError::InterfaceError(e)) if format!("{:?}", e) == wantd);
            if !ok {
                return fail(
                    prop,
                    "C18.err",
                    format!("polling hit the link error {} but the exchange returned {}", wantd, match &got { Ok(v) => brief(v), Err(e) => format!("Err({:?})", e) }),
                    "link-error-not-propagated".to_string(),
                );
            }
            sim.probe("exchange_link_error");
        } else if expect_timeout {
            if !matches!(got, Err(ProtocolError::PacketTimeout)) {
                return fail(
                    prop,
                    "C18.timeout",
                    format!("no matching packet arrived before the link ran dry but the exchange returned {}", match &got { Ok(v) => brief(v), Err(e) => format!("Err({:?})", e) }),
                    "timeout".to_string(),
                );
            }
            sim.probe("exchange_timeout");
        } else {
            let clause = if multi_form { "C18.all" } else { "C18.first" };
            match &got {
                Ok(v) if v == want_strings => {}
                _ => {
                    return fail(
                        prop,
                        clause,
                        format!(
                            "requested {} (capture_all={}, own {:04x}): expected {} in arrival order, the exchange returned {}",
                            kind_name(kind),
                            capture,
                            own,
                            brief(want_strings),
                            match &got { Ok(v) => brief(v), Err(e) => format!("Err({:?})", e) }
                        ),
                        if multi_form { "wrong-reply-list" } else { "wrong-reply" }.to_string(),
                    )
                }
            }
            if multi_form && want_strings.len() >= 2 {
                sim.probe("exchange_multiple_replies");
            }
            if multi_form && want_strings.len() > 4096 {
                sim.probe("exchange_over_4096_replies");
            }
            if multi_form && want_strings.is_empty() {
                sim.probe("exchange_empty_list");
            }
            if !multi_form {
                sim.probe("exchange_first_match");
            }
        }
        // what is left on the link
        let same_left = left.len() == remaining.len()
            && left.iter().zip(remaining.iter()).all(|(a, b)| match (a, b) {
                (RxItem::Pkt(p), RxItem::Pkt(q)) => packet_eq(p, q),
                (RxItem::Nothing, RxItem::Nothing) => true,
                (RxItem::Err(a), RxItem::Err(b)) => a == b,
                _ => false,
            });
        if !same_left {
            let clause = if multi_form { "C18.all" } else { "C18.first" };
            return fail(
                prop,
                clause,
                format!(
                    "of {} queued entries {} should have been taken from the link, but {} were ({} left instead of {})",
                    queue.len(),
                    consumed,
                    queue.len() - left.len().min(queue.len()),
                    left.len(),
                    remaining.len()
                ),
                if left.len() < remaining.len() { "consumed-too-much" } else { "consumed-too-little" }.to_string(),
            );
        }
        if !remaining.is_empty() {
            sim.probe("exchange_left_later_traffic_queued");
        }
        if capture {
            sim.probe("exchange_capture_all");
        }
        if own == BROADCAST_ADDRESS {
            sim.probe("own_is_broadcast");
        }
        sim.abstract_state((kind << 8) | ((multi_form as u32) << 7) | ((capture as u32) << 6) | (bucket(queue.len()) << 2) | (expect_err.is_some() as u32) << 1 | expect_timeout as u32);
        sim.set_sample(|| {
            format!(
                "own={:04x} exchange_packet{}::<{}> capture_all={} request->{:04x} queue=[{}] -> {}",
                own,
                if multi_form { "s" } else { "" },
                kind_name(kind),
                capture,
                req_addr,
                queue
                    .iter()
                    .take(40)
                    .map(|i| match i {
                        RxItem::Pkt(p) => format!("pkt@{:04x}/{}B{}", p.device_address, p.data.len(), if p.is_error { "/err" } else { "" }),
                        RxItem::Nothing => "nothing".to_string(),
                        RxItem::Err(k) => format!("err{}", k),
                    })
                    .collect::<Vec<_>>()
                    .join(","),
                match &got { Ok(v) => brief(v), Err(e) => format!("Err({:?})", e) }
            )
        });
    }
    Outcome::Pass
}

/// true if routing the request invokes handlers that use the link themselves (transmitting
/// handlers, a handler performing an exchange): the outcome of "the next send" cannot be pinned
fn has_loop_senders(hs: &[MHandler], req_addr: u16, own: u16) -> bool {
    req_addr == own && hs.iter().any(|h| matches!(h.beh, Beh::Sender(_) | Beh::Exchanger))
}
