#!/usr/bin/env python3
"""Validates MANIFEST.json and evidence/*.json against the schemas (uses the tooling venv's jsonschema when available)."""
import json, sys, glob, os
try:
    import jsonschema
except ImportError:
    if os.environ.get("VERIF_VALIDATE_REEXEC"):
        print("jsonschema not available"); sys.exit(2)
    os.environ["VERIF_VALIDATE_REEXEC"] = "1"
    vt = "/opt/veriftools/pyvenv/bin/python"
    os.execv(vt, [vt, os.path.abspath(__file__)] + sys.argv[1:])
ok = True
def check(path, schema):
    global ok
    try:
        jsonschema.validate(json.load(open(path)), json.load(open(schema)))
        print("valid  ", path)
    except Exception as e:
        ok = False
        print("INVALID", path, str(e)[:300])
if os.path.exists("/verif/MANIFEST.json"):
    check("/verif/MANIFEST.json", "/root/.vp/MANIFEST.schema.json")
for f in sorted(glob.glob("/verif/evidence/*.json")):
    check(f, "/root/.vp/EVIDENCE.schema.json")
sys.exit(0 if ok else 1)
