"""Per-property parameters and evidence texts of the rosssim checks."""

REAL_LINK = [
    "real: /repo/src/interface/{can,usart,serial}.rs try_get_packet/try_send_packet",
    "real: /repo/src/packet.rs (Packet::to_frames, PacketBuilder)",
    "real: /repo/src/frame.rs (CAN and USART frame codecs), cobs 0.1.4, nb, embedded-hal traits, serialport::SerialPort trait, bxcan 0.4.0 Frame/Id/Data types",
    "stub: CAN controller + driver object (bxcan::Can<I> substitute forwarding to the simulated device)",
    "stub: USART peripheral, OS serial port, the wire, the application",
]

COMMON_ASSUMPTIONS = [
    "sampling, not proof: seeded search over schedules and fault sequences; a clean batch is evidence over the sampled runs only",
    "nothing below the API seam is modelled (CAN arbitration/error frames, UART framing bits, OS buffering)",
    "built with feature std, without feature send; release profile with overflow-checks and debug-assertions on; one in 25 seeded runs uses a second, unoptimised build of the same simulator in a process with a 2 MiB stack",
]

PROPS = {
    "C13": {
        "scenario": "S-LINK(clean)",
        "level": "exploration",
        "runs": {"quick": 500000, "thorough": 10000000},
        "crash_clause": "C13.noerr",
        "rule": "one run = one seeded tape: link kind, schedule variant (eager / would-block at frame boundaries / inside frames / everywhere / one frame per poll / heavy), 1..8 (thorough 1..40) packets with drawn flags, addresses, sizes (incl. 256+ and 4096-frame packets) and byte patterns, sends interleaved with polls, every device read answered from the tape (would-block, short read, Interrupted); 40% of the runs duplex (both endpoints send and receive; optionally with transmit back-pressure, optionally with failing sends of the receiving endpoint, whose direction is then not judged); payloads incl. event encodings; plus the enumerated single would-block sweep (12 size pairs x 3 links x every unit position x bursts 1,2,50). Non-trivial = at least one of: poll ended on a partial packet, would-block inside a frame, multi-frame packet, >=2 packets, packets still queued at a return, sweep case. Distinct = distinct event-log hashes among the non-trivial runs.",
        "state_measure": "abstract state = (receiver phase: idle | partial with bucketed units taken) x bucketed units in flight x last poll delivered; transitions between consecutive polls",
        "probes": ["poll_ended_on_partial_packet", "wouldblock_inside_frame", "multi_frame_packet", "multi_packet_sequence",
                   "packets_queued_at_return", "frame_id_over_255", "sweep_case", "serial_short_read", "long_no_data_burst",
                   "duplex_traffic", "identical_consecutive_packets", "nearly_identical_consecutive_packets", "sequence_over_256_packets", "serial_idle_read_returned_zero",
                   "duplex_with_transmit_back_pressure", "duplex_with_failing_sends_of_the_receiving_endpoint", "payload_is_an_event_encoding", "payload_begins_with_an_event_code"],
        "components": REAL_LINK,
        "assumptions": COMMON_ASSUMPTIONS + [
            "schedule space as the property states it: 'no data yet' between frames on CAN and serial port, between any two bytes on USART; data eventually arrives (consecutive would-blocks while data is in flight are bounded per run by 1, 3, 8 or 64)",
            "the wire is FIFO and lossless and the device of the judged sender is benign or only delays (failing sender devices are C14's subject; the direction sent through a failing device is not judged)",
        ],
    },
}

PROPS["C06"] = {
    "scenario": "S-LINK(hostile)",
    "level": "exploration",
    "runs": {"quick": 1000000, "thorough": 15000000},
    "crash_clause": "C06.total",
    "rule": "one run = one seeded tape: link kind, polling schedule variant, 0..6 (thorough 0..40) episodes - each the frames of one source packet damaged by up to three faults (interrupted, dropped, duplicated, swapped, header rewritten, foreign frame interleaved, start frame retransmitted; bit flip, zero byte, truncated / extended / arbitrary body incl. length 0 and 255, lying or oversized declared data length, line noise; CAN: standard id, remote, arbitrary id, overrun with frame loss, multi-frame without id byte) - an optional stale partial packet matching the probes' device/type, then two complete probe packets back-to-back (distinct, identical, or differing in one respect; rarely of the maximum size class); optional receiver restarts; optionally the application also sends through the receiver object between polls (busy transmitter); rarely a very long no-data burst near the probes; serial clear(Input) during a poll may discard what is in flight. Non-trivial = a hostile prefix existed, or the first probe was dropped with an error, or a prefix frame/builder error was returned. Distinct = distinct event-log hashes among those.",
    "state_measure": "abstract state = bucketed frames taken x bucketed units in flight x last result class (ok / nothing / builder error / frame error / other)",
    "probes": ["hostile_prefix", "probe_first_dropped_with_error", "prefix_builder_error", "prefix_frame_error", "stale_partial_before_probes",
               "receiver_restarted", "fault_interrupted_packet", "fault_frame_dropped", "fault_frame_duplicated", "fault_frames_swapped",
               "fault_header_rewritten", "fault_foreign_frame", "fault_start_retransmitted", "fault_bit_flip", "fault_zero_in_body",
               "fault_body_truncated", "fault_body_extended", "fault_arbitrary_body", "fault_zero_length_frame", "fault_declared_length",
               "fault_line_noise", "fault_can_standard_id", "fault_can_remote", "fault_can_arbitrary", "fault_can_overrun",
               "fault_can_multi_without_id", "identical_probes", "receiver_object_also_sends", "long_no_data_burst_near_probes",
               "first_probe_of_4096_frames", "prefix_ends_with_packet_of_4096_frames"],
    "components": REAL_LINK + ["real (as frame source only): Packet::to_frames, Frame::to_usart_frame / to_bxcan_frame build the valid frames that the fault injector then damages"],
    "assumptions": COMMON_ASSUMPTIONS + [
        "whole link frames only (a delimiter, a length byte L, exactly L body bytes; non-zero noise between frames), as the property states; byte loss inside a frame is not injected",
        "one-phase runs attribute a result to the link frame taken last from the device before the poll returned (only for receivers that do not read ahead, established by calibration); two-phase runs drain the prefix first and attribute every later result to the probes",
    ],
}

PROPS["C19"] = {
    "scenario": "S-LINK(memory)",
    "level": "exploration",
    "runs": {"quick": 50000, "thorough": 50000},
    "crash_clause": None,
    "rule": "one run = one seeded tape: link kind, polling schedule variant, a long traffic history of 20..420 (thorough up to 20000) episodes as in C06 (clean packets incl. 256+/4096-frame ones, damaged packets, abandoned start frames announcing up to 4096 frames; in 4% of the runs over-long 'packets' of up to 8192 frames whose 13th id bit sits in the reserved header bit; in a quarter of the runs a USART/serial device that fails reads hard at aligned positions), 15% of runs clean-only; SUT-domain heap bytes measured after every poll with the returned value dropped first, and the largest single SUT allocation during each poll. Every run is non-trivial (it holds a partial packet between polls or crosses a boundary after a multi-frame packet); distinct = distinct event-log hashes.",
    "state_measure": "abstract state (sampled every 64 polls) = bucketed bytes held above fresh x bucketed announcement in flight x bucketed units in flight",
    "probes": ["partial_packet_held_between_polls", "boundary_after_multi_frame", "abandoned_giant_announcement", "history_over_1000_frames",
               "held_over_4k_for_large_packet", "fault_zero_length_frame", "fault_interrupted_packet", "boundaries",
               "history_with_device_read_errors", "overlong_packet_with_reserved_bit", "receiver_object_also_sends"],
    "components": REAL_LINK + ["harness: counting global allocator with per-allocation domain tags (SUT while inside a ross-protocol call, SIM in devices/harness); realloc modelled as allocate-copy-free"],
    "assumptions": COMMON_ASSUMPTIONS + [
        "bounds: between polls live <= fresh + 4 KiB + 96 B x A, A = largest frame count announced by any start frame taken since the last boundary (model-free upper bound on the packet in flight); after Ok(_) or Err(BuilderError(_)) live <= fresh; no single allocation during a poll above max(1 KiB, 96 B x A, 4 x returned payload)",
        "runs in which the receiver panics or blocks are C06's subject and are counted as foreign, not as C19 violations",
        "growth of the link object during its own send calls is set aside up to 64 B + 4 x the wire size of the largest packet sent so far (a reused transmit buffer is not receiver memory)",
    ],
}

PROPS["C14"] = {
    "scenario": "S-SEND",
    "level": "fault_enumeration",
    "runs": {"quick": 1000000, "thorough": 15000000},
    "crash_clause": "C14.exact",
    "rule": "enumeration: for each packet of a fixed list (quick: 0,3,8,9,14,15,22 bytes; thorough: 40 sizes 0..70) and each link, after a dry run that counts the device calls, every single fault position: USART a would-block burst (1,2,50) before every byte; CAN a would-block burst before and a displaced-frame report at every transmit; serial port a hard error (3 kinds), every short-write size 1..14 and an Interrupted at every write call, an error (3 kinds) and Interrupted 1,2,3,4,7 times in a row at every flush call. Exploration: seeded runs with random packets (up to 28672 bytes) and random combinations/rates of the same reactions. Non-trivial = a reaction actually fired or the packet is multi-frame. Distinct = distinct event-log hashes among those. The enumeration is exhaustive over its stated list only.",
    "state_measure": "not measured for this scenario (single call per run)",
    "probes": ["fired_would_block", "fired_short_write", "fired_interrupted", "fired_hard_write_error", "fired_flush_error",
               "fired_displaced_frame", "multi_frame_packet", "frame_id_over_255", "sent_ok", "sent_err_reported", "long_would_block_burst",
               "several_packets_through_one_sender", "send_after_failed_send", "sender_has_receive_history", "flush_interrupted"],
    "components": [
        "real: /repo/src/interface/{can,usart,serial}.rs try_send_packet; Packet::to_frames; Frame::to_usart_frame / to_bxcan_frame; cobs",
        "real (as definition of the expected stream): the library's own fragmenter and frame encoders (their layout is C08-C10's subject)",
        "stub: CAN controller (bxcan::Can substitute), USART peripheral, OS serial port",
    ],
    "assumptions": COMMON_ASSUMPTIONS + [
        "an Interrupted write or flush may be retried or reported; on the serial port Ok requires a flush that succeeded after the last write",
        "any Err result counts as 'returned as an error' for write/flush failures and displaced frames (the variant is not checked)",
    ],
}

PROPS["C07"] = {
    "scenario": "S-BUILDER",
    "level": "exploration",
    "runs": {"quick": 3000000, "thorough": 30000000},
    "crash_clause": "C07.accept",
    "rule": "one run = one seeded tape: 1..3 source packets (same/different device and error type, 1..13 frames, occasionally 256+ and thorough 4096 frames) fragmented by the library, a first frame offered to the constructor (source start frame, synthetic start frame announcing 1..4096 frames multi or single, or a non-start frame), then the remaining frames through a faulty channel (drop, duplicate, reorder, flag/address/start/multi/data-length rewrite, id rewritten to next+-1, +k, announced, announced+-1, random, the right id plus a multiple of 4096 / 256, any 16-bit value; addresses with one bit flipped; sparse packets whose frames carry 0-2 data bytes; foreign frames injected; late frames after completion), every add_frame compared with the acceptance model and the observers re-read after every step. Non-trivial = a frame was rejected, a packet completed, or the constructor refused a non-start frame. Distinct = distinct event-log hashes among those.",
    "state_measure": "abstract state = bucketed accepted count x bucketed remaining count x whether the offered frame was acceptable",
    "probes": ["frame_rejected", "accepted_after_rejection", "completed", "constructor_refused_non_start", "announced_over_256",
               "single_start_announcing_more", "rejected_out_of_order", "rejected_single_frame", "rejected_too_many", "rejected_wrong_type",
               "rejected_address", "chan_dropped", "chan_duplicated", "chan_reordered", "chan_rewritten", "chan_id_rewritten", "chan_foreign_injected", "chan_id_beyond_12_bits", "sparse_source_packet"],
    "components": [
        "real: /repo/src/packet.rs PacketBuilder::{new, add_frame, build, frames_left, frame_count, expected_frame_count}, Packet::to_frames (as frame source)",
        "stub: the frame channel (drop/duplicate/reorder/rewrite/inject) and the acceptance model (written from the property statement)",
    ],
    "assumptions": COMMON_ASSUMPTIONS + [
        "frames have <= 8 data bytes, unused bytes zero, last-frame id iff start flag; start frames announce 1..4096 frames (refusing larger announcements would be a legitimate robustness measure); continuation frames may carry any 16-bit id",
        "a rejection reason must be one that truly applies, not the one the current guard order yields; id-based reasons apply to non-start frames only",
    ],
}

NODE_COMPONENTS = [
    "real: /repo/src/protocol.rs (Protocol::tick, send_packet, add_/remove_packet_handler, exchange_packet(s), handle_packet, id allocation)",
    "real: event decoders used as exchange filters (C18), event encoders as packet source",
    "stub: the Interface under Protocol (scripted queue of receive results and send outcomes logging every call in one global event sequence), the application (handlers, operation histories)",
]
NODE_ASSUMPTIONS = COMMON_ASSUMPTIONS + [
    "InterfaceError values are compared by debug image (the type has no PartialEq)",
    "handlers transmit only to other devices from inside a delivery (as C15 states), except: in the C16 check one handler may continue an own-address send (nested sends, the running handler may be re-entered, skipped or deferred), in the C18 check one handler may perform an exchange of its own; handler invocation order within one delivery is not constrained",
    "attribution: when an expected handler does not fire, the registry itself is asked (remove of its id) to decide between a dispatch defect (C15/C16) and a registry defect (C17)",
]

PROPS["C15"] = {
    "scenario": "S-NODE",
    "level": "exploration",
    "runs": {"quick": 2500000, "thorough": 40000000},
    "crash_clause": "C15.fanout",
    "rule": "one run = one seeded tape: own address (incl. 0xffff, 0x0000), a history of 1..24 (thorough 1..80) operations - add (capture-all or not; plain or transmitting handler), remove (live / stale / never issued id), tick against a drawn link result (packet to own / broadcast / other address, data or error packet; nothing; each of 30 link error values (incl. the io::ErrorKinds Interrupted, WouldBlock, TimedOut, UnexpectedEof, WriteZero); optionally a second packet queued behind), send - each registry operation followed by a reveal delivery on both paths. Every tick is judged: at most one packet taken, fan-out multiset, result, re-entrant transmissions. Non-trivial = a probe fired (broadcast delivery, capture-all-only delivery, link error, nothing, id reuse, re-entrant send, queued second packet ...). Distinct = distinct event-log hashes among those.",
    "state_measure": "abstract state = bucketed handler count x bucketed capture-all count x last operation kind",
    "probes": ["broadcast_packet_delivered", "foreign_packet_to_capture_all_only", "tick_on_link_error", "tick_on_nothing", "own_is_broadcast",
               "second_packet_left_queued", "reentrant_send_with_other_handlers", "handler_sent_from_delivery", "id_reused_after_removal", "handler_removed",
               "large_handler_table", "received_copy_of_last_sent_packet", "history_over_150_operations"],
    "components": NODE_COMPONENTS,
    "assumptions": NODE_ASSUMPTIONS,
}
PROPS["C16"] = dict(PROPS["C15"], **{
    "crash_clause": "C16.tx",
    "rule": "same histories as C15; every send_packet is judged: destination own address => every local handler exactly once and on the link iff the own address is broadcast; otherwise on the link exactly once, unmodified, no local handler; the link's send outcome (ok or one of 31 error values) is what the caller gets. Non-trivial = a routing probe fired. Distinct = distinct event-log hashes among those.",
    "probes": ["loopback_only", "loopback_and_transmit_own_is_broadcast", "broadcast_destination_transmitted", "transmitted_to_other",
               "send_error_returned", "handler_sent_from_delivery", "id_reused_after_removal", "nested_own_address_sends", "nested_own_address_sends_over_8_deep", "large_handler_table"],
})
PROPS["C17"] = dict(PROPS["C15"], **{
    "crash_clause": "C17.unique",
    "rule": "registry-heavy histories (40-80% add/remove: remove from the middle, id reuse, removal of stale and never-issued ids) interleaved with deliveries; after every registry operation a reveal step sends one own-address packet through tick and one through the loop-back path of send_packet and determines which handlers are live; removed handlers must never fire again on any delivery; at the end every id ever seen is removed once more and must answer Ok / NoSuchHandler as the model says. Non-trivial = a handler was removed, an unregistered id was removed, or an id was reused. Distinct = distinct event-log hashes among those.",
    "probes": ["handler_removed", "remove_of_unregistered_id", "id_reused_after_removal", "id_reuse_with_neighbours", "reveal_steps", "large_handler_table", "burst_of_16_or_more_removals_without_delivery"],
})
PROPS["C18"] = {
    "scenario": "S-NODE(exchange)",
    "level": "exploration",
    "runs": {"quick": 2500000, "thorough": 40000000},
    "crash_clause": "C18.first",
    "rule": "one run = one seeded tape: own address, 0..3 handlers, 1..2 (thorough 1..4) exchanges, each with: single- or multi-reply form, capture mode, one of the 16 event kinds or of 3 application-defined kinds (error-accepting, zero-sized, 256-byte value) as requested type, a request addressed to own / broadcast / another device, an optional send error, an incoming queue of 0..12 entries (valid encodings of the requested and of other kinds, error-flagged, wrongly sized, addressed to own / broadcast / others, explicit 'nothing received'), optionally ending in one of 30 link errors, optionally with later traffic behind the stopping point; rarely queues of 65-300 or 5000-12000 entries; in 30% of the exchanges the last entries arrive during the wait callback; in 8% of the tables one handler performs an exchange of its own while the request is routed. The request routing is compared with an ordinary send of the same request on an identically built twin node; the result, the wait callback's count and position in the global event sequence, and the entries left on the link are compared with the model. Non-trivial = any exchange probe fired. Distinct = distinct event-log hashes among those.",
    "state_measure": "abstract state = requested kind x form x capture mode x bucketed queue length x (link error, timeout)",
    "probes": ["exchange_first_match", "exchange_multiple_replies", "exchange_empty_list", "exchange_timeout", "exchange_link_error",
               "exchange_send_error", "exchange_skipped_nonmatching", "exchange_skipped_wrong_address", "exchange_left_later_traffic_queued",
               "exchange_capture_all", "own_is_broadcast", "exchange_application_defined_kind", "exchange_long_queue", "exchange_queue_over_4096_entries",
               "exchange_over_4096_replies", "exchange_performed_by_handler_during_routing", "replies_arrive_during_the_wait"],
    "components": NODE_COMPONENTS,
    "assumptions": NODE_ASSUMPTIONS + [
        "'decodes as the requested kind' is defined by the library's own decoder for that kind (its correctness is C03/C05/C11's subject); packets shorter than 6 bytes are not shown to the data-event decoder and undefined message-value images are not shown to the message decoder (both crash/UB today, C05's subject)",
    ],
}
PROPS["C01"] = {
    "scenario": "S-E2E",
    "level": "exploration",
    "runs": {"quick": 1000000, "thorough": 10000000},
    "crash_clause": "C01.ok",
    "rule": "one run = one seeded tape: link kind, polling schedule variant (as C13, on both directions), node addresses (distinct incl. 0xffff / 0x0000, or both broadcast), 0..4 handlers on B and 0..3 on A with drawn capture-all flags, in a third of the runs B's handlers answer with acknowledgements through the protocol handle they are given; 1..12 (thorough 1..60) events over all 16 kinds with arbitrary field values (data events up to the 4096-frame limit) addressed to the peer, broadcast or a third device; sends interleaved with ticks of both nodes, every device read answered from the tape; swarm options: receiver handler tables with a history (34-66 handlers, removals, later additions), broadcasts from a node whose own address is broadcast, transmit back-pressure, one long no-data pause sat out tick by tick. After every step every handler log must be a prefix of its expectation and the newest entry must decode (with the decoder of the sent kind) to the sent value; at quiescence logs equal expectations. Non-trivial = multi-frame event, several events in flight, mixed handler table, third-device event, traffic in both directions or a broadcast node address. Distinct = distinct event-log hashes among those.",
    "state_measure": "abstract state = bucketed units in flight A->B x B->A x last top-level action",
    "probes": ["multi_frame_event", "several_events_in_flight", "mixed_handler_table", "event_for_third_device",
               "both_directions_carried_traffic", "broadcast_node_address", "frame_id_over_255", "handler_sent_from_delivery",
               "receiver_table_with_history", "broadcast_sent_by_node_whose_address_is_broadcast", "transmit_back_pressure", "long_no_data_pause"],
    "components": [
        "real: Protocol on both nodes, the real Can/Usart/Serial interface under each, Packet::to_frames, PacketBuilder, both frame codecs, all 16 event encoders and decoders, cobs",
        "stub: CAN controller (bxcan::Can substitute), USART peripheral, OS serial port, the wire (reliable FIFO per direction), the application",
    ],
    "assumptions": COMMON_ASSUMPTIONS + [
        "the wire is reliable (hostile wires are C06's subject); two nodes have distinct addresses unless both are broadcast; events addressed to the sender itself are excluded (C16's loop-back rule) unless the sender's own address is the broadcast address",
        "padding bytes of MessageValue's in-memory image (uninitialised memory copied out by the encoder) are overwritten with tape-drawn bytes before the packet enters the simulation",
    ],
}
