"""Per-property parameters and evidence texts of the rosssim checks."""

REAL_LINK = [
    "real: /repo/src/interface/{can,usart,serial}.rs try_get_packet/try_send_packet",
    "real: /repo/src/packet.rs (Packet::to_frames, PacketBuilder)",
    "real: /repo/src/frame.rs (CAN and USART frame codecs), cobs 0.1.4, nb, embedded-hal traits, serialport::SerialPort trait, bxcan 0.4.0 Frame/Id/Data types",
    "stub: CAN controller + driver object (bxcan::Can<I> substitute forwarding to the simulated device)",
    "stub: USART peripheral, OS serial port, the wire, the application",
]

COMMON_ASSUMPTIONS = [
    "sampling, not proof: seeded search over schedules and fault sequences; a clean batch is evidence over the sampled runs only",
    "nothing below the API seam is modelled (CAN arbitration/error frames, UART framing bits, OS buffering)",
    "built with feature std, without feature send; release profile with overflow-checks and debug-assertions on",
]

PROPS = {
    "C13": {
        "scenario": "S-LINK(clean)",
        "level": "exploration",
        "runs": {"quick": 60000, "thorough": 3000000},
        "crash_clause": "C13.noerr",
        "rule": "one run = one seeded tape: link kind, schedule variant (eager / would-block at frame boundaries / inside frames / everywhere / one frame per poll / heavy), 1..8 (thorough 1..40) packets with drawn flags, addresses, sizes (incl. 256+ and 4096-frame packets) and byte patterns, sends interleaved with polls, every device read answered from the tape (would-block, short read, Interrupted); plus the enumerated single would-block sweep (12 size pairs x 3 links x every unit position x bursts 1,2,50). Non-trivial = at least one of: poll ended on a partial packet, would-block inside a frame, multi-frame packet, >=2 packets, packets still queued at a return, sweep case. Distinct = distinct event-log hashes among the non-trivial runs.",
        "state_measure": "abstract state = (receiver phase: idle | partial with bucketed units taken) x bucketed units in flight x last poll delivered; transitions between consecutive polls",
        "probes": ["poll_ended_on_partial_packet", "wouldblock_inside_frame", "multi_frame_packet", "multi_packet_sequence",
                   "packets_queued_at_return", "frame_id_over_255", "sweep_case", "serial_short_read"],
        "components": REAL_LINK,
        "assumptions": COMMON_ASSUMPTIONS + [
            "schedule space as the property states it: 'no data yet' between frames on CAN and serial port, between any two bytes on USART; data eventually arrives (consecutive would-blocks while data is in flight are bounded per run by 1, 3, 8 or 64)",
            "the wire is FIFO and lossless and the sender's device is benign (sender-side reactions are C14's subject)",
        ],
    },
}

PROPS["C06"] = {
    "scenario": "S-LINK(hostile)",
    "level": "exploration",
    "runs": {"quick": 90000, "thorough": 4000000},
    "crash_clause": "C06.total",
    "rule": "one run = one seeded tape: link kind, polling schedule variant, 0..6 (thorough 0..40) episodes - each the frames of one source packet damaged by up to three faults (interrupted, dropped, duplicated, swapped, header rewritten, foreign frame interleaved, start frame retransmitted; bit flip, zero byte, truncated / extended / arbitrary body incl. length 0 and 255, lying or oversized declared data length, line noise; CAN: standard id, remote, arbitrary id, overrun with frame loss, multi-frame without id byte) - an optional stale partial packet matching the probes' device/type, then two complete probe packets back-to-back; optional receiver restarts. Non-trivial = a hostile prefix existed, or the first probe was dropped with an error, or a prefix frame/builder error was returned. Distinct = distinct event-log hashes among those.",
    "state_measure": "abstract state = bucketed frames taken x bucketed units in flight x last result class (ok / nothing / builder error / frame error / other)",
    "probes": ["hostile_prefix", "probe_first_dropped_with_error", "prefix_builder_error", "prefix_frame_error", "stale_partial_before_probes",
               "receiver_restarted", "fault_interrupted_packet", "fault_frame_dropped", "fault_frame_duplicated", "fault_frames_swapped",
               "fault_header_rewritten", "fault_foreign_frame", "fault_start_retransmitted", "fault_bit_flip", "fault_zero_in_body",
               "fault_body_truncated", "fault_body_extended", "fault_arbitrary_body", "fault_zero_length_frame", "fault_declared_length",
               "fault_line_noise", "fault_can_standard_id", "fault_can_remote", "fault_can_arbitrary", "fault_can_overrun",
               "fault_can_multi_without_id"],
    "components": REAL_LINK + ["real (as frame source only): Packet::to_frames, Frame::to_usart_frame / to_bxcan_frame build the valid frames that the fault injector then damages"],
    "assumptions": COMMON_ASSUMPTIONS + [
        "whole link frames only (a delimiter, a length byte L, exactly L body bytes; non-zero noise between frames), as the property states; byte loss inside a frame is not injected",
        "a result is attributed to the link frame taken last from the device before the poll returned (the receivers read no further than the frame they report on)",
    ],
}

PROPS["C19"] = {
    "scenario": "S-LINK(memory)",
    "level": "exploration",
    "runs": {"quick": 6000, "thorough": 200000},
    "crash_clause": None,
    "rule": "one run = one seeded tape: link kind, polling schedule variant, a long traffic history of 20..420 (thorough up to 20000) episodes as in C06 (clean packets incl. 256+/4096-frame ones, damaged packets, abandoned start frames announcing up to 4096 frames), 15% of runs clean-only; SUT-domain heap bytes measured after every poll with the returned value dropped first, and the largest single SUT allocation during each poll. Every run is non-trivial (it holds a partial packet between polls or crosses a boundary after a multi-frame packet); distinct = distinct event-log hashes.",
    "state_measure": "abstract state (sampled every 64 polls) = bucketed bytes held above fresh x bucketed announcement in flight x bucketed units in flight",
    "probes": ["partial_packet_held_between_polls", "boundary_after_multi_frame", "abandoned_giant_announcement", "history_over_1000_frames",
               "held_over_4k_for_large_packet", "fault_zero_length_frame", "fault_interrupted_packet", "boundaries"],
    "components": REAL_LINK + ["harness: counting global allocator with per-allocation domain tags (SUT while inside a ross-protocol call, SIM in devices/harness); realloc modelled as allocate-copy-free"],
    "assumptions": COMMON_ASSUMPTIONS + [
        "bounds: between polls live <= fresh + 256 B + 96 B x A, A = largest frame count announced by any start frame taken since the last boundary (model-free upper bound on the packet in flight); after Ok(_) or Err(BuilderError(_)) live <= fresh; no single allocation during a poll above max(1 KiB, 96 B x A, 4 x returned payload)",
        "runs in which the receiver panics or blocks are C06's subject and are counted as foreign, not as C19 violations",
    ],
}

PROPS["C14"] = {
    "scenario": "S-SEND",
    "level": "fault_enumeration",
    "runs": {"quick": 60000, "thorough": 2000000},
    "crash_clause": "C14.exact",
    "rule": "enumeration: for each packet of a fixed list (quick: 0,3,8,9,14,15,22 bytes; thorough: 40 sizes 0..70) and each link, after a dry run that counts the device calls, every single fault position: USART a would-block burst (1,2,50) before every byte; CAN a would-block burst before and a displaced-frame report at every transmit; serial port a hard error (3 kinds), every short-write size 1..14 and an Interrupted at every write call, an error (3 kinds) at every flush call. Exploration: seeded runs with random packets (up to 28672 bytes) and random combinations/rates of the same reactions. Non-trivial = a reaction actually fired or the packet is multi-frame. Distinct = distinct event-log hashes among those. The enumeration is exhaustive over its stated list only.",
    "state_measure": "not measured for this scenario (single call per run)",
    "probes": ["fired_would_block", "fired_short_write", "fired_interrupted", "fired_hard_write_error", "fired_flush_error",
               "fired_displaced_frame", "multi_frame_packet", "frame_id_over_255", "sent_ok", "sent_err_reported"],
    "components": [
        "real: /repo/src/interface/{can,usart,serial}.rs try_send_packet; Packet::to_frames; Frame::to_usart_frame / to_bxcan_frame; cobs",
        "real (as definition of the expected stream): the library's own fragmenter and frame encoders (their layout is C08-C10's subject)",
        "stub: CAN controller (bxcan::Can substitute), USART peripheral, OS serial port",
    ],
    "assumptions": COMMON_ASSUMPTIONS + [
        "an Interrupted write may be retried or reported; a missing flush call is not flagged (only a failed flush that is ignored)",
        "any Err result counts as 'returned as an error' for write/flush failures and displaced frames (the variant is not checked)",
    ],
}
