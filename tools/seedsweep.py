#!/usr/bin/env python3
"""Runs every check in the given tier for a list of VERIF_SEED values and prints one line per
(check, seed). Used to look for false alarms on the unchanged tree:
  tools/seedsweep.py quick 1 2 3 ...        (default: quick, seeds 1..12)"""
import os, subprocess, sys, time
V = os.path.dirname(os.path.dirname(os.path.abspath(__file__)))
args = sys.argv[1:]
tier = args[0] if args and args[0] in ("quick", "thorough") else "quick"
seeds = [int(a) for a in args if a.isdigit()] or list(range(1, 13))
props = ["C01", "C06", "C07", "C13", "C14", "C15", "C16", "C17", "C18", "C19"]
bad = 0
for s in seeds:
    for p in props:
        t0 = time.time()
        r = subprocess.run([os.path.join(V, "check"), p, tier, "--seed", str(s)], capture_output=True, text=True)
        out = r.stdout + r.stderr
        note = ""
        if r.returncode != 0:
            bad += 1
            note = " :: " + " | ".join(l.strip() for l in out.splitlines() if l.startswith(("VIOLATION", "HARNESS", "  clause")))[:600]
        unre = [l.strip() for l in out.splitlines() if "unreached probes" in l]
        print("%s %s seed=%d exit=%d %.0fs%s%s" % (p, tier, s, r.returncode, time.time() - t0, note, (" " + unre[0]) if unre else ""), flush=True)
print("SEEDSWEEP %s: %d seeds x %d checks, %d non-zero exits" % (tier, len(seeds), len(props), bad))
