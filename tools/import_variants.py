#!/usr/bin/env python3
"""Imports behaviour-preserving variants written by sub-agents (/tmp/mut/<P>/out3/mN) into
/verif/variants/<P>-vN/ and records what the ten checks say about each. A variant is written to
keep ONE property true (the one named in its meta); an alarm of that property's check would be
a false alarm. Alarms of other checks are triaged by hand (triage.json)."""
import json, os, re, shutil, subprocess, sys, glob
VERIF = os.path.dirname(os.path.dirname(os.path.abspath(__file__)))
def main():
    items = sys.argv[1:]
    rnd = "out3"
    if "--round" in items:
        rnd = items[items.index("--round") + 1]
        del items[items.index("--round"):items.index("--round") + 2]
    tagr = "" if rnd == "out3" else "r" + rnd[3:]
    if not items:
        for d in sorted(glob.glob("/tmp/mut/C*/%s/m*" % rnd)):
            items.append("%s:%s" % (d.split("/")[3], d.split("/")[-1][1:]))
    for it in items:
        p, n = it.split(":")
        src = "/tmp/mut/%s/%s/m%s" % (p, rnd, n)
        if not os.path.exists(os.path.join(src, "patch.diff")):
            continue
        n = tagr + n
        dst = os.path.join(VERIF, "variants", "%s-v%s" % (p, n))
        os.makedirs(dst, exist_ok=True)
        shutil.copy(os.path.join(src, "patch.diff"), os.path.join(dst, "patch.diff"))
        shutil.copy(os.path.join(src, "demo.rs"), os.path.join(dst, "demo.rs"))
        try:
            am = json.load(open(os.path.join(src, "meta.json")))
        except Exception:
            am = {}
        r = subprocess.run([os.path.join(VERIF, "tools", "evalmut.py"), os.path.join(dst, "patch.diff"), "--demo", os.path.join(dst, "demo.rs")], capture_output=True, text=True)
        out = r.stdout + r.stderr
        res = {}
        clauses = {}
        for l in out.splitlines():
            if l.startswith("RESULT "):
                res = json.loads(l[7:])
            m = re.match(r"^(C\d\d) (\S+)\s+[\d.]+s (.*)$", l)
            if m and m.group(2) == "VIOLATION":
                clauses[m.group(1)] = m.group(3).strip()[:300]
        checks = res.get("checks", {})
        flagged = sorted(k for k, v in checks.items() if v != "ok")
        meta = {
            "id": "%s-v%s" % (p, n),
            "keeps_property": p,
            "summary": am.get("summary", ""),
            "why_property_still_holds": am.get("why_property_still_holds", ""),
            "observable_differences": am.get("observable_differences", ""),
            "author": "independent sub-agent given only the property text and a scratch worktree, asked for a behaviour-preserving change",
            "confirmed_here": {"existing_tests_pass_with_patch": res.get("tests_pass"), "demo_passes_without_patch": res.get("demo_passes_without"), "demo_passes_with_patch": (res.get("demo_fails_with") is False)},
            "checks": checks,
            "alarms": flagged,
            "alarm_of_own_property": p in flagged,
            "first_violation_reported": clauses,
        }
        json.dump(meta, open(os.path.join(dst, "meta.json"), "w"), indent=1)
        print("%s-v%s own_alarm=%s alarms=%s tests=%s demo(w/o,with)=(%s,%s)" % (p, n, p in flagged, ",".join(flagged) or "-", res.get("tests_pass"), res.get("demo_passes_without"), res.get("demo_fails_with") is False), flush=True)
if __name__ == "__main__":
    main()
