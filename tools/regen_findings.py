#!/usr/bin/env python3
"""Regenerates /verif/findings/*.json: the minimised replays of the five repaired defects (D1-D5)
as the current checks find them on the pinned tree (78acee3). A replay is a decision tape and is
only meaningful for the generator it was recorded with, so this is re-run whenever a generator
changes. Each new file is verified both ways: it reproduces on the pinned tree and does not on
/repo's HEAD."""
import glob, json, os, shutil, subprocess, sys
V = os.path.dirname(os.path.dirname(os.path.abspath(__file__)))
PINNED = "/tmp/wt-pinned-regen"
HEAD = "/tmp/wt-head-regen"
WANT = [  # (property, clause, signature regex, file name)
    ("C06", "C06.total", r"usart:panic:lib.rs:337", "D1-usart-cobs-unwrap.json"),
    ("C06", "C06.total", r"usart:panic:lib.rs:334", "D1-usart-cobs-assert.json"),
    ("C06", "C06.total", r"(usart|serial):panic:frame.rs:184", "D2-declared-length-oob.json"),
    ("C06", "C06.noblock", r"usart:blocked", "D3-usart-zero-length-frame-blocks.json"),
    ("C06", "C06.probe", r"serial:second-probe-lost", "D4-serial-stale-builder-second-probe-lost.json"),
    ("C06", "C06.probe", r"serial:altered-or-stitched", "D4-serial-stale-builder-stitched.json"),
    ("C14", "C14.exact", r"serial:ok-but-incomplete", "D5-serial-short-write-ok-but-incomplete.json"),
    ("C14", "C14.prefix", r"serial:not-a-prefix", "D5-serial-short-write-garbled-stream.json"),
]
import re
def sh(cmd, env=None):
    return subprocess.run(cmd, capture_output=True, text=True, env=env)
def main():
    for d, rev in ((PINNED, "78acee3"), (HEAD, "HEAD")):
        sh(["git", "-C", "/repo", "worktree", "remove", "--force", d])
        r = sh(["git", "-C", "/repo", "worktree", "add", "-q", "--detach", d, rev])
        if r.returncode != 0:
            print(r.stderr); return 2
    envp = dict(os.environ, VERIF_REPO=PINNED, VERIF_SLOT="pinned")
    envh = dict(os.environ, VERIF_REPO=HEAD, VERIF_SLOT="regen-head")
    bad = 0
    try:
        for prop in ("C06", "C14"):
            sh([os.path.join(V, "check"), prop, "quick"], env=envp)
        rdir = os.path.join(V, "sim", "target", "slots", "pinned", "target", "scratch", "replays")
        for f in glob.glob(os.path.join(V, "findings", "D*.json")):
            os.remove(f)
        for prop, clause, sig, name in WANT:
            best = None
            for f in glob.glob(os.path.join(rdir, prop, "*.json")):
                j = json.load(open(f))
                if j["clause"] == clause and re.fullmatch(sig, j.get("signature", "")) and j.get("tape"):
                    if best is None or len(j["tape"]) < best[0]:
                        best = (len(j["tape"]), f)
            if not best:
                print("NOT FOUND on the pinned tree: %s %s %s" % (prop, clause, sig)); bad += 1; continue
            dst = os.path.join(V, "findings", name)
            shutil.copy(best[1], dst)
            a = sh([os.path.join(V, "check"), prop, "--replay", dst], env=envp)
            b = sh([os.path.join(V, "check"), prop, "--replay", dst], env=envh)
            ok = a.returncode == 1 and b.returncode == 0
            print("%s: %d draws; pinned tree exit %d, repaired tree exit %d %s" % (name, best[0], a.returncode, b.returncode, "ok" if ok else "UNEXPECTED"))
            bad += 0 if ok else 1
    finally:
        for d in (PINNED, HEAD):
            sh(["git", "-C", "/repo", "worktree", "remove", "--force", d])
    return 1 if bad else 0
if __name__ == "__main__":
    sys.exit(main())
