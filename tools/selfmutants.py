#!/usr/bin/env python3
"""Sensitivity suite: the "changes it must catch" of DESIGN.md §5 as textual
mutants, plus behaviour-preserving variants that must NOT raise an alarm.

  tools/selfmutants.py [--only NAME[,NAME]] [--all-props] [--tier quick|thorough] [--list]

Each mutant is applied to a scratch worktree of /repo's HEAD (outside /repo and
/verif), the repository's own tests are run (they must still pass, otherwise the
mutant is reported as "not test-passing" and skipped), then the check of the
expected property (or, with --all-props, all ten checks) is run with VERIF_REPO
pointing at the scratch copy. Results are written to
/verif/sensitivity/results.json and printed as a table.
"""
import json, os, shutil, subprocess, sys, tempfile, time

VERIF = os.path.dirname(os.path.dirname(os.path.abspath(__file__)))
ALL = ["C01", "C06", "C07", "C13", "C14", "C15", "C16", "C17", "C18", "C19"]

# (name, expected property or "none" for behaviour-preserving variants, tier needed, file, old, new)
M = []

def m(name, prop, file, old, new, tier="quick"):
    M.append({"name": name, "prop": prop, "file": file, "old": old, "new": new, "tier": tier})

DELIVER_USART = """                                self.packet_builder = None;

                                return Ok(packet);"""

# ---------------------------------------------------------------- C13
m("c13-usart-builder-not-cleared-after-delivery", "C13", "src/interface/usart.rs", DELIVER_USART, "                                return Ok(packet);")
m("c13-can-builder-not-cleared-after-delivery", "C13", "src/interface/can.rs",
  "                            self.packet_builder = None;\n\n                            return Ok(packet);", "                            return Ok(packet);")
m("c13-usart-builder-cleared-on-empty-poll", "C13", "src/interface/usart.rs",
  "                Err(_) => break,\n            }\n        }\n\n        Err(InterfaceError::NoPacketReceived)",
  "                Err(_) => {\n                    self.packet_builder = None;\n                    break;\n                }\n            }\n        }\n\n        Err(InterfaceError::NoPacketReceived)")
m("c13-can-builder-cleared-on-empty-poll", "C13", "src/interface/can.rs",
  "                Err(_) => break,", "                Err(_) => {\n                    self.packet_builder = None;\n                    break;\n                }")
m("c13-usart-outer-read-blocks", "C13", "src/interface/usart.rs",
  "            match self.serial.read() {\n                Ok(frame_start) => {", "            match block!(self.serial.read()) {\n                Ok(frame_start) => {")
m("c13-usart-inner-block-dropped", "C13", "src/interface/usart.rs",
  "                            match block!(self.serial.read()) {\n                                Ok(byte) => frame.push(byte),",
  "                            match self.serial.read() {\n                                Ok(byte) => frame.push(byte),")
m("c13-usart-length-byte-read-not-blocking", "C13", "src/interface/usart.rs",
  "let expected_length = match block!(self.serial.read()) {", "let expected_length = match self.serial.read() {")
m("c13-usart-address-mask-asymmetric", "C13", "src/frame.rs",
  "frame[2] = ((self.device_address & 0xff00) >> 8) as u8;", "frame[2] = ((self.device_address & 0x7f00) >> 8) as u8;")
m("c13-can-id-nibble-mask-narrowed", "C13", "src/frame.rs",
  "            FrameId::CurrentFrameId(frame_id) => id |= ((frame_id & 0x0f00) as u32 >> 8) << 16,",
  "            FrameId::CurrentFrameId(frame_id) => id |= ((frame_id & 0x0700) as u32 >> 8) << 16,", tier="thorough")
m("c13-usart-id-nibble-dropped-on-decode", "C13", "src/frame.rs",
  "            FrameId::CurrentFrameId((((frame[0] & 0x0f) as u16) << 8) | frame[1] as u16)",
  "            FrameId::CurrentFrameId((((frame[0] & 0x07) as u16) << 8) | frame[1] as u16)", tier="thorough")
m("c13-serial-ignores-short-reads", "C13", "src/interface/serial.rs",
  "                        if let Err(err) = self.port.read_exact(&mut frame[..]) {", "                        if let Err(err) = self.port.read(&mut frame[..]) {")
m("c13-serial-continues-after-first-byte-timeout-as-error", "C13", "src/interface/serial.rs",
  "                Err(err) => return Err(InterfaceError::NoPacketReceived),",
  "                Err(err) => return Err(InterfaceError::SerialError(SerialError::ReadError(err))),")
m("c13-fragment-last-frame-len-off", "C13", "src/packet.rs",
  "                    self.data.len() % 7 + 1", "                    (self.data.len() + 1) % 7 + 1")
m("c13-can-two-packets-in-one-poll", "C13", "src/interface/can.rs",
  "                            self.packet_builder = None;\n\n                            return Ok(packet);",
  "                            self.packet_builder = None;\n\n                            if packet.data.len() == 0 {\n                                continue;\n                            }\n\n                            return Ok(packet);")

# ---------------------------------------------------------------- C06
m("c06-can-builder-kept-after-error", "C06", "src/interface/can.rs",
  "                        if let Err(err) = packet_builder.add_frame(ross_frame) {\n                            self.packet_builder = None;\n", "                        if let Err(err) = packet_builder.add_frame(ross_frame) {\n")
m("c06-usart-builder-kept-after-error", "C06", "src/interface/usart.rs",
  "                            if let Err(err) = packet_builder.add_frame(ross_frame) {\n                                self.packet_builder = None;\n", "                            if let Err(err) = packet_builder.add_frame(ross_frame) {\n")
m("c06-serial-builder-kept-after-error", "C06", "src/interface/serial.rs",
  "                            if let Err(err) = packet_builder.add_frame(ross_frame) {\n                                self.packet_builder = None;\n", "                            if let Err(err) = packet_builder.add_frame(ross_frame) {\n")
m("c06-declared-length-check-removed", "C06", "src/frame.rs", "frame.len() < 5 || frame[4] > 8 || ", "frame.len() < 5 || ")
m("c06-usart-zero-length-loop", "C06", "src/interface/usart.rs",
  "                        while frame.len() < expected_length as usize {", "                        while frame.len() != expected_length as usize || frame.is_empty() {")
m("c06-cobs-error-unwrapped", "C06", "src/frame.rs",
  "                Ok(Some(n)) => n,\n                _ => return Err(FrameError::CobsError),", "                Ok(Some(n)) => n,\n                other => other.unwrap().unwrap_or(0),")
m("c06-can-frame-error-unwrapped", "C06", "src/interface/can.rs",
  "                        Err(err) => return Err(InterfaceError::FrameError(err)),", "                        Err(err) => panic!(\"{:?}\", err),")
m("c06-min-size-check-removed", "C06", "src/frame.rs", "if frame.len() < 5 || frame[4] > 8", "if frame.is_empty() || frame.len() < 5 && frame[0] == 0xff || frame.len() >= 5 && frame[4] > 8")

# (not in the suite, on purpose: removing the start-flag guard of add_frame is an equivalent
#  mutant for well-formed frames - a start frame carries LastFrameId and is still rejected by the
#  CurrentFrameId match; loosening the USART size check to '<' and making an event decoder accept
#  error packets break C09 / C05 only, which this technique does not claim.)

# ---------------------------------------------------------------- C07
m("c07-id-guard-lt", "C07", "src/packet.rs", "if frame_id != self.frames.len() as u16 {", "if frame_id < self.frames.len() as u16 {")
m("c07-id-guard-gt", "C07", "src/packet.rs", "if frame_id != self.frames.len() as u16 {", "if frame_id > self.frames.len() as u16 {")
m("c07-too-many-guard-removed", "C07", "src/packet.rs",
  "            if frame_id >= self.expected_frame_count {\n                return Err(PacketBuilderError::TooManyFrames);\n            }\n", "")
m("c07-too-many-guard-off-by-one", "C07", "src/packet.rs", "if frame_id >= self.expected_frame_count {", "if frame_id > self.expected_frame_count {")
m("c07-address-guard-removed", "C07", "src/packet.rs",
  "        if frame.device_address != self.device_address {\n            return Err(PacketBuilderError::DeviceAddressMismatch);\n        }\n\n", "")
m("c07-type-guard-removed", "C07", "src/packet.rs",
  "        if !frame.not_error_flag != self.is_error {\n            return Err(PacketBuilderError::WrongFrameType);\n        }\n\n", "")
m("c07-multi-guard-removed", "C07", "src/packet.rs",
  "        if !frame.multi_frame_flag {\n            return Err(PacketBuilderError::SingleFramePacket);\n        }\n\n", "")
m("c07-build-without-completeness-check", "C07", "src/packet.rs",
  "        if self.frames.len() != self.expected_frame_count as usize {", "        if self.frames.len() > self.expected_frame_count as usize {")
m("c07-wrong-reason-for-address", "C07", "src/packet.rs",
  "            return Err(PacketBuilderError::DeviceAddressMismatch);", "            return Err(PacketBuilderError::WrongFrameType);")
m("c07-new-accepts-non-start", "C07", "src/packet.rs",
  "        if !frame.start_frame_flag {\n            return Err(PacketBuilderError::OutOfOrder);\n        }\n\n        let expected_frame_count = if let FrameId::LastFrameId(last_frame_id) = frame.frame_id {\n            last_frame_id + 1\n        } else {\n            return Err(PacketBuilderError::OutOfOrder);\n        };",
  "        let expected_frame_count = match frame.frame_id {\n            FrameId::LastFrameId(last_frame_id) => last_frame_id + 1,\n            FrameId::CurrentFrameId(id) => id + 1,\n        };")
m("c07-payload-skips-first-byte-of-single", "C07", "src/packet.rs",
  "let start_index = if frame.multi_frame_flag { 1 } else { 0 };", "let start_index = if frame.multi_frame_flag || self.expected_frame_count > 1 { 1 } else { 0 };")

# ---------------------------------------------------------------- C14
m("c14-usart-block-dropped-on-body", "C14", "src/interface/usart.rs",
  "                let _ = block!(self.serial.write(*byte));", "                let _ = self.serial.write(*byte);")
m("c14-usart-block-dropped-on-delimiter", "C14", "src/interface/usart.rs",
  "            let _ = block!(self.serial.write(0x00));", "            let _ = self.serial.write(0x00);")
m("c14-serial-flush-error-ignored", "C14", "src/interface/serial.rs",
  "        if let Err(err) = self.port.flush() {\n            Err(InterfaceError::SerialError(SerialError::WriteError(err)))\n        } else {\n            Ok(())\n        }",
  "        let _ = self.port.flush();\n\n        Ok(())")
m("c14-serial-write-not-write-all", "C14", "src/interface/serial.rs",
  "            if let Err(err) = self.port.write_all(&frame_buf) {", "            if let Err(err) = self.port.write(&frame_buf) {")
m("c14-serial-length-write-error-ignored", "C14", "src/interface/serial.rs",
  "            let buf = [frame_buf.len() as u8; 1];\n            if let Err(err) = self.port.write_all(&buf) {\n                return Err(InterfaceError::SerialError(SerialError::WriteError(err)));\n            }",
  "            let buf = [frame_buf.len() as u8; 1];\n            let _ = self.port.write_all(&buf);")
m("c14-can-displaced-ignored", "C14", "src/interface/can.rs",
  "            if let Ok(Some(_)) = block!(self.can.transmit(&frame.to_bxcan_frame())) {\n                return Err(InterfaceError::CanError(CanError::MailboxFull));\n            }",
  "            let _ = block!(self.can.transmit(&frame.to_bxcan_frame()));")
m("c14-can-block-dropped", "C14", "src/interface/can.rs",
  "            if let Ok(Some(_)) = block!(self.can.transmit(&frame.to_bxcan_frame())) {", "            if let Ok(Some(_)) = self.can.transmit(&frame.to_bxcan_frame()) {")
m("c14-usart-frames-reversed-for-long-packets", "C14", "src/interface/usart.rs",
  "        let frames = packet.to_frames();\n\n        for frame in frames {\n            let _ = block!(self.serial.write(0x00));",
  "        let mut frames = packet.to_frames();\n\n        if frames.len() > 3 {\n            frames.swap(1, 2);\n        }\n\n        for frame in frames {\n            let _ = block!(self.serial.write(0x00));")

# ---------------------------------------------------------------- C15
m("c15-broadcast-clause-dropped", "C15", "src/protocol.rs",
  "                if packet.device_address == self.device_address\n                    || packet.device_address == BROADCAST_ADDRESS\n                {\n                    self.handle_packet(&packet, true);",
  "                if packet.device_address == self.device_address {\n                    self.handle_packet(&packet, true);")
m("c15-capture-predicate-and", "C15", "src/protocol.rs", "if owned_address || handler.1 {", "if owned_address && handler.1 {")
m("c15-capture-predicate-inverted", "C15", "src/protocol.rs", "if owned_address || handler.1 {", "if owned_address || !handler.1 {")
m("c15-nopacket-is-error", "C15", "src/protocol.rs",
  "                InterfaceError::NoPacketReceived => Ok(()),\n                _ => Err(ProtocolError::InterfaceError(err)),\n            },\n        }\n    }\n\n    pub fn send_packet",
  "                _ => Err(ProtocolError::InterfaceError(err)),\n            },\n        }\n    }\n\n    pub fn send_packet")
m("c15-builder-errors-swallowed", "C15", "src/protocol.rs",
  "                InterfaceError::NoPacketReceived => Ok(()),\n                _ => Err(ProtocolError::InterfaceError(err)),\n            },\n        }\n    }\n\n    pub fn send_packet",
  "                InterfaceError::NoPacketReceived | InterfaceError::BuilderError(_) => Ok(()),\n                _ => Err(ProtocolError::InterfaceError(err)),\n            },\n        }\n    }\n\n    pub fn send_packet")
m("c15-stops-after-first-handler", "C15", "src/protocol.rs",
  "                    handler.0(packet, transmute(self));\n", "                    handler.0(packet, transmute(self));\n                    if !owned_address {\n                        break;\n                    }\n")
m("c15-tick-drains-two", "C15", "src/protocol.rs",
  "                    self.handle_packet(&packet, false);\n                }\n\n                Ok(())",
  "                    self.handle_packet(&packet, false);\n                    let _ = self.interface.try_get_packet();\n                }\n\n                Ok(())")
m("c15-zero-address-treated-as-broadcast", "C15", "src/protocol.rs",
  "                    || packet.device_address == BROADCAST_ADDRESS\n                {\n                    self.handle_packet(&packet, true);",
  "                    || packet.device_address == BROADCAST_ADDRESS\n                    || packet.device_address == 0x0000\n                {\n                    self.handle_packet(&packet, true);")

# ---------------------------------------------------------------- C16
m("c16-loopback-and-transmit", "C16", "src/protocol.rs",
  "            if self.device_address != BROADCAST_ADDRESS {\n                return Ok(());\n            }", "")
m("c16-broadcast-destination-loops-back", "C16", "src/protocol.rs",
  "        if packet.device_address == self.device_address {\n            self.handle_packet(&packet, true);",
  "        if packet.device_address == self.device_address || packet.device_address == BROADCAST_ADDRESS {\n            self.handle_packet(&packet, true);")
m("c16-send-error-swallowed", "C16", "src/protocol.rs",
  "        match self.interface.try_send_packet(packet) {\n            Ok(_) => Ok(()),\n            Err(err) => Err(ProtocolError::InterfaceError(err)),\n        }",
  "        match self.interface.try_send_packet(packet) {\n            Ok(_) => Ok(()),\n            Err(InterfaceError::CanError(_)) => Ok(()),\n            Err(err) => Err(ProtocolError::InterfaceError(err)),\n        }")
m("c16-own-broadcast-not-transmitted", "C16", "src/protocol.rs",
  "            if self.device_address != BROADCAST_ADDRESS {\n                return Ok(());\n            }", "            return Ok(());")
m("c16-loopback-respects-capture-flag", "C16", "src/protocol.rs",
  "        if packet.device_address == self.device_address {\n            self.handle_packet(&packet, true);",
  "        if packet.device_address == self.device_address {\n            self.handle_packet(&packet, packet.is_error);")

# ---------------------------------------------------------------- C17
m("c17-id-is-table-size", "C17", "src/protocol.rs",
  "        let mut first_available_id = 0;\n\n        for id in self.handlers.keys() {\n            if first_available_id == *id {\n                first_available_id += 1;\n            }\n        }\n\n        return first_available_id;",
  "        return self.handlers.len() as u32;")
m("c17-id-scan-le", "C17", "src/protocol.rs", "            if first_available_id == *id {", "            if first_available_id <= *id {")
m("c17-remove-neighbour", "C17", "src/protocol.rs",
  "        match self.handlers.remove(&id) {", "        match self.handlers.remove(&(if id > 2 { id - 1 } else { id })) {")
m("c17-nosuch-never-reported", "C17", "src/protocol.rs",
  "            None => Err(ProtocolError::NoSuchHandler),", "            None => Ok(()),")
m("c17-remove-reports-ok-but-keeps-last", "C17", "src/protocol.rs",
  "        match self.handlers.remove(&id) {", "        if self.handlers.len() > 3 && self.handlers.contains_key(&id) {\n            return Ok(());\n        }\n\n        match self.handlers.remove(&id) {")

# ---------------------------------------------------------------- C18
EX1 = """                        if let Ok(received_event) = R::try_from_packet(&received_packet) {
                            return Ok(received_event);
                        }"""
m("c18-last-instead-of-first", "C18", "src/protocol.rs",
  "        wait_closure();\n\n        loop {\n            match self.interface.try_get_packet() {\n                Ok(received_packet) => {\n                    if capture_all_addresses\n                        || received_packet.device_address == self.device_address\n                        || received_packet.device_address == BROADCAST_ADDRESS\n                    {\n" + EX1,
  "        wait_closure();\n\n        let mut last = None;\n\n        loop {\n            match self.interface.try_get_packet() {\n                Ok(received_packet) => {\n                    if capture_all_addresses\n                        || received_packet.device_address == self.device_address\n                        || received_packet.device_address == BROADCAST_ADDRESS\n                    {\n                        if let Ok(received_event) = R::try_from_packet(&received_packet) {\n                            last = Some(received_event);\n                        }")
m("c18-broadcast-clause-dropped-single", "C18", "src/protocol.rs",
  "                        || received_packet.device_address == self.device_address\n                        || received_packet.device_address == BROADCAST_ADDRESS\n                    {\n" + EX1,
  "                        || received_packet.device_address == self.device_address\n                    {\n" + EX1)
m("c18-capture-flag-inverted-multi", "C18", "src/protocol.rs",
  "                    if capture_all_addresses\n                        || received_packet.device_address == self.device_address\n                        || received_packet.device_address == BROADCAST_ADDRESS\n                    {\n                        if let Ok(received_event) = R::try_from_packet(&received_packet) {\n                            events.push(received_event);",
  "                    if !capture_all_addresses\n                        || received_packet.device_address == self.device_address\n                        || received_packet.device_address == BROADCAST_ADDRESS\n                    {\n                        if let Ok(received_event) = R::try_from_packet(&received_packet) {\n                            events.push(received_event);")
m("c18-wait-before-send", "C18", "src/protocol.rs",
  "        let mut events = vec![];\n\n        self.send_packet(&packet)?;\n\n        wait_closure();", "        let mut events = vec![];\n\n        wait_closure();\n\n        self.send_packet(&packet)?;")
m("c18-wait-twice-on-empty", "C18", "src/protocol.rs",
  "                Err(err) => match err {\n                    InterfaceError::NoPacketReceived => break,\n                    _ => return Err(ProtocolError::InterfaceError(err)),\n                },\n            }\n        }\n\n        Err(ProtocolError::PacketTimeout)",
  "                Err(err) => match err {\n                    InterfaceError::NoPacketReceived => {\n                        wait_closure();\n                        break;\n                    }\n                    _ => return Err(ProtocolError::InterfaceError(err)),\n                },\n            }\n        }\n\n        Err(ProtocolError::PacketTimeout)")
m("c18-errors-mapped-to-timeout", "C18", "src/protocol.rs",
  "                    InterfaceError::NoPacketReceived => break,\n                    _ => return Err(ProtocolError::InterfaceError(err)),\n                },\n            }\n        }\n\n        Err(ProtocolError::PacketTimeout)",
  "                    InterfaceError::NoPacketReceived => break,\n                    InterfaceError::FrameError(_) => break,\n                    _ => return Err(ProtocolError::InterfaceError(err)),\n                },\n            }\n        }\n\n        Err(ProtocolError::PacketTimeout)")
m("c18-multi-stops-at-first-match", "C18", "src/protocol.rs",
  "                            events.push(received_event);", "                            events.push(received_event);\n                            if events.len() == 3 {\n                                break;\n                            }")
m("c18-exchange-bypasses-loopback", "C18", "src/protocol.rs",
  "    ) -> Result<R, ProtocolError> {\n        self.send_packet(&packet)?;", "    ) -> Result<R, ProtocolError> {\n        if let Err(err) = self.interface.try_send_packet(&packet) {\n            return Err(ProtocolError::InterfaceError(err));\n        }")

# ---------------------------------------------------------------- C19
m("c19-serial-builder-kept-after-error", "C19", "src/interface/serial.rs",
  "                            if let Err(err) = packet_builder.add_frame(ross_frame) {\n                                self.packet_builder = None;\n", "                            if let Err(err) = packet_builder.add_frame(ross_frame) {\n")
m("c19-can-builder-kept-after-error", "C19", "src/interface/can.rs",
  "                        if let Err(err) = packet_builder.add_frame(ross_frame) {\n                            self.packet_builder = None;\n", "                        if let Err(err) = packet_builder.add_frame(ross_frame) {\n")
m("c19-builder-preallocates-by-announcement", "C19", "src/packet.rs",
  "            frames: vec![frame],\n        })", "            frames: {\n                let mut frames = Vec::with_capacity(expected_frame_count as usize * 16);\n                frames.push(frame);\n                frames\n            },\n        })")
m("c19-builder-leaked-on-delivery", "C19", "src/interface/usart.rs", DELIVER_USART,
  "                                core::mem::forget(self.packet_builder.take());\n\n                                return Ok(packet);")
m("c19-usart-frame-buffer-preallocated-4k", "C19", "src/interface/usart.rs",
  "                        let mut frame = vec![];", "                        let mut frame = alloc::vec::Vec::with_capacity(4096);")

# ---------------------------------------------------------------- C01
m("c01-tick-broadcast-clause-dropped", "C01", "src/protocol.rs",
  "                if packet.device_address == self.device_address\n                    || packet.device_address == BROADCAST_ADDRESS\n                {\n                    self.handle_packet(&packet, true);",
  "                if packet.device_address == self.device_address {\n                    self.handle_packet(&packet, true);")
m("c01-button-index-decode-masked", "C01", "src/event/button.rs",
  "        let index = packet.data[4];\n\n        Ok(ButtonPressedEvent {", "        let index = packet.data[4] & 0x7f;\n\n        Ok(ButtonPressedEvent {")
m("c01-relay-value-encode-swapped", "C01", "src/event/relay.rs",
  "            Self::DoubleExclusive(RelayDoubleExclusiveValue::SecondChannelOn) => vec![0x03],\n            Self::DoubleExclusive(RelayDoubleExclusiveValue::NoChannelOn) => vec![0x04],",
  "            Self::DoubleExclusive(RelayDoubleExclusiveValue::SecondChannelOn) => vec![0x04],\n            Self::DoubleExclusive(RelayDoubleExclusiveValue::NoChannelOn) => vec![0x03],")
m("c01-data-event-len-truncated", "C01", "src/event/general.rs",
  "        for byte in u16::to_be_bytes(self.data_len).iter() {", "        for byte in u16::to_be_bytes(self.data_len & 0x0fff).iter() {")
m("c01-usart-builder-not-cleared-after-delivery", "C01", "src/interface/usart.rs", DELIVER_USART, "                                return Ok(packet);")
m("c01-handle-packet-skips-last-handler-when-four", "C01", "src/protocol.rs",
  "            for handler in transmute::<&Self, &mut Self>(self).handlers.values_mut() {",
  "            let skip_last = self.handlers.len() == 4;\n            let n = self.handlers.len();\n            for (i, handler) in transmute::<&Self, &mut Self>(self).handlers.values_mut().enumerate() {\n                if skip_last && i == n - 1 {\n                    continue;\n                }")

# ------------------------------------------- behaviour-preserving variants (must stay silent)
m("ok-add-frame-guards-reordered", "none", "src/packet.rs",
  "        if !frame.not_error_flag != self.is_error {\n            return Err(PacketBuilderError::WrongFrameType);\n        }\n\n        if frame.device_address != self.device_address {\n            return Err(PacketBuilderError::DeviceAddressMismatch);\n        }\n\n",
  "        if frame.device_address != self.device_address {\n            return Err(PacketBuilderError::DeviceAddressMismatch);\n        }\n\n        if !frame.not_error_flag != self.is_error {\n            return Err(PacketBuilderError::WrongFrameType);\n        }\n\n")
m("ok-handler-ids-max-plus-one", "none", "src/protocol.rs",
  "        let mut first_available_id = 0;\n\n        for id in self.handlers.keys() {\n            if first_available_id == *id {\n                first_available_id += 1;\n            }\n        }\n\n        return first_available_id;",
  "        return self.handlers.keys().next_back().map(|id| *id + 1).unwrap_or(0);")
m("ok-handlers-invoked-in-reverse", "none", "src/protocol.rs",
  "            for handler in transmute::<&Self, &mut Self>(self).handlers.values_mut() {", "            for handler in transmute::<&Self, &mut Self>(self).handlers.values_mut().rev() {")
m("ok-receivers-drop-builder-on-frame-error", "none", "src/interface/usart.rs",
  "                            Err(err) => return Err(InterfaceError::FrameError(err)),", "                            Err(err) => {\n                                self.packet_builder = None;\n                                return Err(InterfaceError::FrameError(err));\n                            }")
m("ok-serial-flush-per-frame", "none", "src/interface/serial.rs",
  "            if let Err(err) = self.port.write_all(&frame_buf) {\n                return Err(InterfaceError::SerialError(SerialError::WriteError(err)));\n            }",
  "            if let Err(err) = self.port.write_all(&frame_buf) {\n                return Err(InterfaceError::SerialError(SerialError::WriteError(err)));\n            }\n\n            if let Err(err) = self.port.flush() {\n                return Err(InterfaceError::SerialError(SerialError::WriteError(err)));\n            }")
m("ok-serial-one-buffer-per-frame", "none", "src/interface/serial.rs",
  "            let buf = [0x00; 1];\n            if let Err(err) = self.port.write_all(&buf) {\n                return Err(InterfaceError::SerialError(SerialError::WriteError(err)));\n            }\n\n            let buf = [frame_buf.len() as u8; 1];\n            if let Err(err) = self.port.write_all(&buf) {\n                return Err(InterfaceError::SerialError(SerialError::WriteError(err)));\n            }\n\n            if let Err(err) = self.port.write_all(&frame_buf) {",
  "            let mut whole = vec![0x00, frame_buf.len() as u8];\n            whole.extend_from_slice(&frame_buf);\n\n            if let Err(err) = self.port.write_all(&whole) {")
m("ok-too-many-before-out-of-order", "none", "src/packet.rs",
  "            if frame_id != self.frames.len() as u16 {\n                return Err(PacketBuilderError::OutOfOrder);\n            }\n\n            if frame_id >= self.expected_frame_count {\n                return Err(PacketBuilderError::TooManyFrames);\n            }",
  "            if frame_id >= self.expected_frame_count {\n                return Err(PacketBuilderError::TooManyFrames);\n            }\n\n            if frame_id != self.frames.len() as u16 {\n                return Err(PacketBuilderError::OutOfOrder);\n            }")
m("ok-builder-with-exact-capacity", "none", "src/packet.rs",
  "            frames: vec![frame],\n        })", "            frames: {\n                let mut frames = Vec::with_capacity(expected_frame_count as usize);\n                frames.push(frame);\n                frames\n            },\n        })")
m("ok-usart-frame-buffer-with-capacity", "none", "src/interface/usart.rs",
  "                        let mut frame = vec![];", "                        let mut frame = alloc::vec::Vec::with_capacity(expected_length_hint());", )
M.pop()  # (placeholder variant needs a helper; not used)
m("ok-usart-per-poll-frame-budget", "none", "src/interface/usart.rs",
  "                                self.packet_builder = None;\n\n                                return Ok(packet);\n                            }\n                        }\n",
  "                                self.packet_builder = None;\n\n                                return Ok(packet);\n                            }\n                        }\n\n                        frames_this_poll += 1;\n\n                        if frames_this_poll >= 32 {\n                            return Err(InterfaceError::NoPacketReceived);\n                        }\n")
M[-1]["extra"] = [("    fn try_get_packet(&mut self) -> Result<Packet, InterfaceError> {\n        loop {\n            match self.serial.read() {", "    fn try_get_packet(&mut self) -> Result<Packet, InterfaceError> {\n        let mut frames_this_poll = 0;\n\n        loop {\n            match self.serial.read() {")]
m("ok-can-overrun-reported-as-error", "none", "src/interface/can.rs",
  "                Err(_) => break,", "                Err(nb::Error::Other(_)) => {\n                    return Err(InterfaceError::CanError(CanError::BufferOverrun));\n                }\n                Err(_) => break,")
m("ok-can-start-frame-restarts-packet", "none", "src/interface/can.rs",
  "                    if let Some(ref mut packet_builder) = self.packet_builder {\n                        if let Err(err) = packet_builder.add_frame(ross_frame) {",
  "                    if self.packet_builder.is_some() && ross_frame.start_frame_flag {\n                        // a start frame always begins a new packet; the stale one is dropped\n                        self.packet_builder = PacketBuilder::new(ross_frame).ok();\n                    } else if let Some(ref mut packet_builder) = self.packet_builder {\n                        if let Err(err) = packet_builder.add_frame(ross_frame) {")
m("ok-usart-sender-flushes-at-end", "none", "src/interface/usart.rs",
  "                let _ = block!(self.serial.write(*byte));\n            }\n        }\n\n        Ok(())",
  "                let _ = block!(self.serial.write(*byte));\n            }\n        }\n\n        let _ = block!(self.serial.flush());\n\n        Ok(())")
m("ok-handler-ids-never-reused", "none", "src/protocol.rs",
  "        let id = self.get_next_handler_id();\n", "        let id = self.next_id;\n        self.next_id += 1;\n")
M[-1]["extra"] = [("    interface: I,\n    #[cfg(not(feature = \"send\"))]\n    handlers:", "    interface: I,\n    next_id: u32,\n    #[cfg(not(feature = \"send\"))]\n    handlers:"),
                  ("            interface,\n            handlers: BTreeMap::new(),", "            interface,\n            next_id: 0,\n            handlers: BTreeMap::new(),")]
m("ok-tick-matches-broadcast-first", "none", "src/protocol.rs",
  "                if packet.device_address == self.device_address\n                    || packet.device_address == BROADCAST_ADDRESS",
  "                if packet.device_address == BROADCAST_ADDRESS\n                    || packet.device_address == self.device_address")


def sh(cmd, cwd=None, env=None, timeout=7200):
    r = subprocess.run(cmd, cwd=cwd, env=env, capture_output=True, text=True, timeout=timeout)
    return r.returncode, r.stdout + r.stderr


def main():
    a = sys.argv[1:]
    if "--list" in a:
        for x in M:
            print("%-55s %-5s %s" % (x["name"], x["prop"], x["tier"]))
        return 0
    only = a[a.index("--only") + 1].split(",") if "--only" in a else None
    all_props = "--all-props" in a
    force_tier = a[a.index("--tier") + 1] if "--tier" in a else None
    env = dict(os.environ, CARGO_NET_OFFLINE="true")
    env.setdefault("VERIF_RUNS_DIV", "5")
    wt = tempfile.mkdtemp(prefix="selfmut-", dir="/tmp")
    os.rmdir(wt)
    rc, out = sh(["git", "-C", "/repo", "worktree", "add", "-q", "--detach", wt, "HEAD"])
    if rc != 0:
        print(out)
        return 2
    results = []
    try:
        for x in M:
            if only and not any(x["name"] == o or x["name"].startswith(o) for o in only):
                continue
            sh(["git", "checkout", "-q", "--", "."], cwd=wt)
            path = os.path.join(wt, x["file"])
            src = open(path).read()
            if src.count(x["old"]) != 1:
                print("%-55s SKIP: pattern occurs %d times" % (x["name"], src.count(x["old"])), flush=True)
                results.append(dict(name=x["name"], prop=x["prop"], status="pattern-mismatch"))
                continue
            src = src.replace(x["old"], x["new"])
            for (eo, en) in x.get("extra", []):
                if src.count(eo) != 1:
                    print("%-55s SKIP: extra pattern occurs %d times" % (x["name"], src.count(eo)), flush=True)
                src = src.replace(eo, en)
            open(path, "w").write(src)
            rc1, o1 = sh(["cargo", "test", "--offline", "--lib", "-q"], cwd=wt, env=env)
            rc2, o2 = sh(["cargo", "test", "--offline", "--features", "std", "--lib", "-q"], cwd=wt, env=env)
            if rc1 != 0 or rc2 != 0:
                why = "does not compile" if "error[" in (o1 + o2) or "error:" in (o1 + o2) and "test result" not in (o1 + o2) else "fails the existing tests"
                print("%-55s SKIP: %s" % (x["name"], why), flush=True)
                results.append(dict(name=x["name"], prop=x["prop"], status=why))
                continue
            tier = force_tier or x["tier"]
            props = ALL if (all_props or x["prop"] == "none") else [x["prop"]]
            verdicts = {}
            detail = ""
            for p in props:
                rc, out = sh([os.path.join(VERIF, "check"), p, tier], cwd=VERIF, env=dict(env, VERIF_REPO=wt))
                verdicts[p] = {0: "ok", 1: "VIOLATION", 2: "HARNESS-ERROR"}.get(rc, "rc=%d" % rc)
                if rc == 1 and not detail:
                    for l in out.splitlines():
                        if l.startswith("  clause"):
                            detail = l.strip()[:200]
                            break
                if rc == 2:
                    detail = "HARNESS: " + out[-400:].replace("\n", " | ")
            flagged = [p for p, v in verdicts.items() if v == "VIOLATION"]
            if x["prop"] == "none":
                status = "silent (good)" if not flagged and "HARNESS-ERROR" not in verdicts.values() else "FALSE ALARM"
            else:
                status = "caught" if x["prop"] in flagged else "MISSED"
            others = [p for p in flagged if p != x["prop"]]
            print("%-55s %-5s %-8s %-14s also:%s %s" % (x["name"], x["prop"], tier, status, ",".join(others) or "-", detail), flush=True)
            results.append(dict(name=x["name"], prop=x["prop"], tier=tier, status=status, flagged=flagged, detail=detail))
    finally:
        sh(["git", "-C", "/repo", "worktree", "remove", "--force", wt])
        shutil.rmtree(wt, ignore_errors=True)
        sh([sys.executable, os.path.join(VERIF, "gen_shadow.py")])
    os.makedirs(os.path.join(VERIF, "sensitivity"), exist_ok=True)
    outp = os.path.join(VERIF, "sensitivity", "results.json" if not only else "results-partial.json")
    json.dump(results, open(outp, "w"), indent=1)
    caught = sum(1 for r in results if r.get("status") == "caught")
    missed = [r["name"] for r in results if r.get("status") == "MISSED"]
    fa = [r["name"] for r in results if r.get("status") == "FALSE ALARM"]
    print("caught %d, missed %d %s, false alarms %d %s" % (caught, len(missed), missed, len(fa), fa))
    return 0


if __name__ == "__main__":
    sys.exit(main())
