#!/usr/bin/env python3
"""Imports sub-agent mutations from /tmp/mut/<P>/out/mN into /verif/seeded/<P>-mN/ and records
what the checks say about each (re-verified here: existing tests pass, demo fails with / passes without).

  tools/import_seeded.py [P:N ...]      (default: everything found)
"""
import json, os, re, shutil, subprocess, sys, glob

VERIF = os.path.dirname(os.path.dirname(os.path.abspath(__file__)))

def main():
    args = sys.argv[1:]
    rnd = "out"
    if "--round" in args:
        rnd = args[args.index("--round") + 1]
        del args[args.index("--round"):args.index("--round") + 2]
    items = args
    if not items:
        for d in sorted(glob.glob("/tmp/mut/C*/%s/m*" % rnd)):
            p = d.split("/")[3]; n = d.split("/")[-1][1:]
            items.append("%s:%s" % (p, n))
    tagr = "" if rnd == "out" else "r" + rnd[3:]
    for it in items:
        p, n = it.split(":")
        src = "/tmp/mut/%s/%s/m%s" % (p, rnd, n)
        if not os.path.exists(os.path.join(src, "patch.diff")):
            continue
        n = tagr + n
        dst = os.path.join(VERIF, "seeded", "%s-m%s" % (p, n))
        os.makedirs(dst, exist_ok=True)
        shutil.copy(os.path.join(src, "patch.diff"), os.path.join(dst, "patch.diff"))
        shutil.copy(os.path.join(src, "demo.rs"), os.path.join(dst, "demo.rs"))
        try:
            am = json.load(open(os.path.join(src, "meta.json")))
        except Exception:
            am = {}
        r = subprocess.run([os.path.join(VERIF, "tools", "evalmut.py"), os.path.join(dst, "patch.diff"), "--demo", os.path.join(dst, "demo.rs")],
                           capture_output=True, text=True)
        out = r.stdout + r.stderr
        res = {}
        for l in out.splitlines():
            if l.startswith("RESULT "):
                res = json.loads(l[7:])
        clauses = {}
        for l in out.splitlines():
            m = re.match(r"^(C\d\d) (\S+)\s+[\d.]+s (.*)$", l)
            if m and m.group(2) == "VIOLATION":
                clauses[m.group(1)] = m.group(3).strip()[:300]
        checks = res.get("checks", {})
        flagged = sorted(k for k, v in checks.items() if v == "VIOLATION")
        meta = {
            "id": "%s-m%s" % (p, n),
            "breaks_property": p,
            "summary": am.get("summary", ""),
            "needs_to_manifest": am.get("needs_to_manifest", ""),
            "author": "independent sub-agent given only the property text and a scratch worktree",
            "author_demo_cmd": am.get("demo_cmd", ""),
            "confirmed_here": {
                "existing_tests_pass_with_patch": res.get("tests_pass"),
                "demo_passes_without_patch": res.get("demo_passes_without"),
                "demo_fails_with_patch": res.get("demo_fails_with"),
                "how": "tools/evalmut.py: scratch worktree of /repo HEAD outside /repo and /verif; cargo test --offline --lib with and without --features std; cargo test --offline --features std --test demo_eval before and after git apply; then ./check <P> quick (seeded runs / 5) for all ten checks with VERIF_REPO pointing at the scratch copy",
            },
            "checks": checks,
            "detected_by": flagged,
            "detected_by_target_check": p in flagged,
            "first_violation_reported": clauses,
        }
        json.dump(meta, open(os.path.join(dst, "meta.json"), "w"), indent=1)
        print("%s-m%s target=%s detected_by=%s tests=%s demo(w/o,with)=(%s,%s)" % (p, n, p in flagged, ",".join(flagged), res.get("tests_pass"), res.get("demo_passes_without"), res.get("demo_fails_with")), flush=True)

if __name__ == "__main__":
    main()
