#!/usr/bin/env python3
"""Regenerates the results block of DESIGN.md §13 from sensitivity/results.json,
seeded/*/meta.json, evidence/*.json and selftest output (sensitivity/determinism.txt)."""
import json, glob, os, re
V = os.path.dirname(os.path.dirname(os.path.abspath(__file__)))
out = []
# ---- determinism
dt = os.path.join(V, "sensitivity", "determinism.txt")
if os.path.exists(dt):
    lines = [l.strip() for l in open(dt) if l.startswith("determinism ")]
    ok = sum(1 for l in lines if l.endswith("identical"))
    out.append("**Determinism self-test** (`./check selftest determinism`, 2 000 seeds per property and tier, 1 vs 16 vs 5 processes): %d of %d property/tier combinations identical line by line.\n" % (ok, len(lines)))
# ---- own sensitivity suite
rp = os.path.join(V, "sensitivity", "results.json")
parts = sorted(glob.glob(os.path.join(V, "sensitivity", "results-part-*.json")))
if parts:
    res = []
    for pth in parts:
        res += json.load(open(pth))
    json.dump(res, open(rp, "w"), indent=1)
if os.path.exists(rp):
    res = json.load(open(rp))
    mut = [r for r in res if r["prop"] != "none"]
    var = [r for r in res if r["prop"] == "none"]
    usable = [r for r in mut if r.get("status") in ("caught", "MISSED")]
    caught = [r for r in usable if r["status"] == "caught"]
    skipped = [r for r in mut if r.get("status") not in ("caught", "MISSED")]
    out.append("**Own sensitivity suite** (`tools/selfmutants.py`, seeded runs / 5): %d mutants compile and pass the 51 existing tests (%d more are rejected by the existing tests or no longer match and are skipped); **%d caught, %d missed** by the check of their property. Behaviour-preserving variants: %d, false alarms: %d.\n" % (
        len(usable), len(skipped), len(caught), len(usable) - len(caught), len(var), sum(1 for r in var if r.get("status") != "silent (good)")))
    out.append("| mutant | property | tier | result | first clause reported |")
    out.append("|---|---|---|---|---|")
    for r in res:
        if r.get("status") in ("caught", "MISSED", "silent (good)", "FALSE ALARM"):
            d = r.get("detail", "")
            m = re.match(r"clause (\S+):", d)
            out.append("| `%s` | %s | %s | %s | %s |" % (r["name"], r["prop"], r.get("tier", ""), r["status"], m.group(1) if m else ""))
    out.append("")
    if skipped:
        out.append("Skipped (not test-passing or pattern no longer present): " + ", ".join("`%s` (%s)" % (r["name"], r.get("status")) for r in skipped) + ".\n")
# ---- independent mutations
def round_of(i):
    m = re.search(r"-m(r(\d)\d+|\d+)$", i)
    if not m:
        return "?"
    return m.group(2) if m.group(2) else "1"
metas = [json.load(open(f)) for f in sorted(glob.glob(os.path.join(V, "seeded", "*", "meta.json")))]
if metas:
    ok = [m for m in metas if m["confirmed_here"]["existing_tests_pass_with_patch"] and m["confirmed_here"]["demo_fails_with_patch"] and m["confirmed_here"]["demo_passes_without_patch"]]
    tgt = [m for m in ok if m["detected_by_target_check"]]
    anyc = [m for m in ok if m["detected_by"]]
    out.append("**Independent mutations** (`/verif/seeded/`, written by sub-agents that were given only the property text and a scratch worktree; each confirmed here: existing tests pass with the patch, the author's demonstration fails with it and passes without): %d kept; **%d detected by the check of the property they were written against, %d detected by at least one check** (checks as they are now, seeded runs / 5; `tools/reeval.py`).\n" % (len(ok), len(tgt), len(anyc)))
    out.append("| round | kept | detected by the target check | detected by some check |")
    out.append("|---|---|---|---|")
    for r in sorted(set(round_of(m["id"]) for m in ok)):
        rr = [m for m in ok if round_of(m["id"]) == r]
        out.append("| %s | %d | %d | %d |" % (r, len(rr), sum(1 for m in rr if m["detected_by_target_check"]), sum(1 for m in rr if m["detected_by"])))
    out.append("")
    out.append("Changes not reported by the check of the property they were filed under (most were filed under a property that cannot see them and are reported by the check of the property they actually break; those marked **none** are reported by no check, for the reason given; full text in each `meta.json`):\n")
    out.append("| id | what it needs to manifest | detected by | why not by the target check |")
    out.append("|---|---|---|---|")
    for m in ok:
        if m["detected_by_target_check"]:
            continue
        out.append("| `%s` | %s | %s | %s |" % (m["id"], m["needs_to_manifest"][:200].replace("|", "/").replace("\n", " "), ", ".join(m["detected_by"]) or "**none**", (m.get("note") or "").replace("|", "/")[:400]))
    out.append("")
    out.append("All kept changes with the first clause the target check reports: " + "; ".join(
        "`%s` %s" % (m["id"], (re.match(r"clause (\S+):", m["first_violation_reported"].get(m["breaks_property"], "")) or [None, "-"])[1]) for m in ok) + ".\n")
# ---- independent behaviour-preserving variants
vmetas = [json.load(open(f)) for f in sorted(glob.glob(os.path.join(V, "variants", "*", "meta.json")))]
if vmetas:
    good = [m for m in vmetas if m["confirmed_here"]["existing_tests_pass_with_patch"] and m["confirmed_here"]["demo_passes_with_patch"]]
    own = [m for m in good if m["alarm_of_own_property"]]
    other = [m for m in good if m["alarms"] and not m["alarm_of_own_property"]]
    triage = {}
    tp = os.path.join(V, "variants", "triage.json")
    if os.path.exists(tp):
        triage = json.load(open(tp))
    out.append("**Independent behaviour-preserving variants** (`/verif/variants/`, written by sub-agents asked to change the implementation substantially while keeping ONE named property true): %d kept; alarms of the check of the property the variant was written to keep: **%d**; variants on which some *other* check reports a violation: %d (each triaged below: the other property is genuinely broken by the variant as that property is worded).\n" % (len(good), len(own), len(other)))
    out.append("| id | what changed | alarms | triage |")
    out.append("|---|---|---|---|")
    for m in good:
        if m["alarms"]:
            out.append("| `%s` | %s | %s | %s |" % (m["id"], m["summary"][:220].replace("|", "/").replace("\n", " "), ", ".join(m["alarms"]), triage.get(m["id"], "")))
    out.append("")
    out.append("Silent on all ten checks: " + ", ".join("`%s`" % m["id"] for m in good if not m["alarms"]) + ".\n")
# ---- evidence summary
out.append("**Last recorded runs of the checks on the repaired tree** (from `/verif/evidence/*.json`):\n")
out.append("| property | tier | seed | runs | distinct non-trivial | sim steps | wall s | violations |")
out.append("|---|---|---|---|---|---|---|---|")
for f in sorted(glob.glob(os.path.join(V, "evidence", "*.json"))):
    e = json.load(open(f))
    c = e["coverage"]
    out.append("| %s | %s | %d | %d | %d | %d | %.1f | %d |" % (e["property_id"], e["tier"], e["seed"], c["evaluations"], c["distinct_nontrivial"], c.get("sim_steps", 0), e["wall_s"], e.get("violations", 0)))
th = os.path.join(V, "sensitivity", "thorough.txt")
if os.path.exists(th):
    out.append("\n**Thorough tier, all ten checks, repaired tree** (`sensitivity/thorough.txt`):\n\n```\n" + open(th).read().strip() + "\n```")
sl = os.path.join(V, "sensitivity", "seeds.txt")
if os.path.exists(sl):
    out.append("\n**Seed sweep, quick tier** (`sensitivity/seeds.txt`): " + open(sl).read().strip())
text = "\n".join(out)
p = os.path.join(V, "DESIGN.md")
s = open(p).read()
i = s.index("<!-- RESULTS:BEGIN -->") + len("<!-- RESULTS:BEGIN -->")
j = s.index("<!-- RESULTS:END -->")
s = s[:i] + "\n" + text + "\n" + s[j:]
open(p, "w").write(s)
print("DESIGN.md §13 regenerated (%d lines)" % len(out))
