#!/usr/bin/env python3
"""Evaluate the checks against a change to ross-protocol, in a scratch worktree.

  tools/evalmut.py <patch.diff> [--demo demo.rs] [--props C13,C06,...] [--tier quick] [--no-tests] [--base REV]

Creates a scratch git worktree of /repo (HEAD, or --base) outside /repo and /verif, applies the
patch, runs the repository's own tests (they must still pass), optionally the demonstration test
(it must fail with the patch and pass without), then every requested check with VERIF_REPO
pointing at the scratch copy. Prints one line per check. The worktree and its build output are
removed afterwards; /verif/evidence and /repo are never touched.
"""
import os, subprocess, sys, shutil, tempfile, json, time

VERIF = os.path.dirname(os.path.dirname(os.path.abspath(__file__)))
ALL = ["C01", "C06", "C07", "C13", "C14", "C15", "C16", "C17", "C18", "C19"]

def sh(cmd, cwd=None, env=None, timeout=3600):
    r = subprocess.run(cmd, cwd=cwd, env=env, capture_output=True, text=True, timeout=timeout)
    return r.returncode, r.stdout + r.stderr

def main():
    a = sys.argv[1:]
    if not a:
        print(__doc__); return 2
    patch = os.path.abspath(a[0]) if a[0] != "--none" else None
    demo = os.path.abspath(a[a.index("--demo") + 1]) if "--demo" in a else None
    props = a[a.index("--props") + 1].split(",") if "--props" in a else ALL
    tier = a[a.index("--tier") + 1] if "--tier" in a else "quick"
    base = a[a.index("--base") + 1] if "--base" in a else "HEAD"
    wt = tempfile.mkdtemp(prefix="evalmut-", dir="/tmp")
    os.rmdir(wt)
    env = dict(os.environ, CARGO_NET_OFFLINE="true")
    env.setdefault("VERIF_RUNS_DIV", "5")
    result = {"patch": patch, "tests_pass": None, "demo_fails_with": None, "demo_passes_without": None, "checks": {}}
    try:
        rc, out = sh(["git", "-C", "/repo", "worktree", "add", "-q", "--detach", wt, base])
        if rc != 0:
            print(out); return 2
        if demo:
            os.makedirs(os.path.join(wt, "tests"), exist_ok=True)
            shutil.copy(demo, os.path.join(wt, "tests", "demo_eval.rs"))
            rc, out = sh(["cargo", "test", "--offline", "--features", "std", "--test", "demo_eval"], cwd=wt, env=env)
            result["demo_passes_without"] = (rc == 0)
        if patch:
            rc, out = sh(["git", "apply", patch], cwd=wt)
            if rc != 0:
                print("patch does not apply:", out); return 2
        if "--no-tests" not in a:
            rc1, o1 = sh(["cargo", "test", "--offline", "--lib"], cwd=wt, env=env)
            rc2, o2 = sh(["cargo", "test", "--offline", "--features", "std", "--lib"], cwd=wt, env=env)
            result["tests_pass"] = (rc1 == 0 and rc2 == 0)
            if not result["tests_pass"]:
                print((o1 + o2)[-1500:])
        if demo:
            rc, out = sh(["cargo", "test", "--offline", "--features", "std", "--test", "demo_eval"], cwd=wt, env=env)
            result["demo_fails_with"] = (rc != 0)
            os.remove(os.path.join(wt, "tests", "demo_eval.rs"))
        print("tests_pass=%s demo_passes_without=%s demo_fails_with=%s" % (result["tests_pass"], result["demo_passes_without"], result["demo_fails_with"]), flush=True)
        env2 = dict(env, VERIF_REPO=wt)
        for p in props:
            t0 = time.time()
            rc, out = sh([os.path.join(VERIF, "check"), p, tier], cwd=VERIF, env=env2)
            lines = [l for l in out.splitlines() if l.startswith("VIOLATION") or l.startswith("HARNESS-ERROR") or l.startswith("  clause") or "foreign" in l or l.startswith("KNOWN")]
            verdict = {0: "ok", 1: "VIOLATION", 2: "HARNESS-ERROR"}.get(rc, "rc=%d" % rc)
            result["checks"][p] = verdict
            first = ""
            for l in lines:
                if l.startswith("  clause"):
                    first = l.strip()[:230]; break
            fg = [l.strip() for l in lines if "foreign" in l]
            print("%s %-13s %5.1fs %s %s" % (p, verdict, time.time() - t0, first, fg[0][:120] if fg else ""), flush=True)
            if rc == 2:
                print(out[-1500:])
    finally:
        sh(["git", "-C", "/repo", "worktree", "remove", "--force", wt])
        shutil.rmtree(wt, ignore_errors=True)
        # point the shadow manifest back at /repo
        sh([sys.executable, os.path.join(VERIF, "gen_shadow.py")])
    print("RESULT " + json.dumps(result))
    return 0

if __name__ == "__main__":
    sys.exit(main())
