#!/usr/bin/env python3
"""Re-evaluates the stored independent changes against the checks as they are now.

  tools/reeval.py seeded|variants [--only ID[,ID]] [--out FILE] [--update]

For every /verif/seeded/<id>/patch.diff (or /verif/variants/<id>/patch.diff) runs tools/evalmut.py
(scratch worktree of /repo HEAD outside /repo and /verif, all ten checks, seeded runs / 5; the
repository's tests and the author's demonstration are not re-run: they were confirmed at import and
neither the patch nor /repo's HEAD has changed since) and writes one JSON line per change to FILE
(default sensitivity/reeval-<kind>.jsonl). With --update the `checks`, `detected_by` /
`alarms` ... fields of the meta.json files are rewritten from FILE instead of running anything.
Intended to be started with `vp run` (it uses the snapshot's own simulator build), then
`--update --out <the snapshot's file>` in /verif.
"""
import json, os, re, subprocess, sys, glob, time

VERIF = os.path.dirname(os.path.dirname(os.path.abspath(__file__)))

def verif_rev():
    return subprocess.run(["git", "-C", VERIF, "rev-parse", "--short", "HEAD"], capture_output=True, text=True).stdout.strip()

def main():
    a = sys.argv[1:]
    kind = a[0]
    only = a[a.index("--only") + 1].split(",") if "--only" in a else None
    out = a[a.index("--out") + 1] if "--out" in a else os.path.join(VERIF, "sensitivity", "reeval-%s.jsonl" % kind)
    dirs = sorted(glob.glob(os.path.join(VERIF, kind, "C*")))
    if "--part" in a:
        # --part i/n : every n-th directory starting with the i-th (for parallel runs)
        i, n = a[a.index("--part") + 1].split("/")
        dirs = dirs[int(i)::int(n)]
    if "--update" in a:
        recs = {}
        for l in open(out):
            r = json.loads(l)
            recs[r["id"]] = r
        n = 0
        for d in dirs:
            i = os.path.basename(d)
            if i not in recs:
                continue
            r = recs[i]
            mp = os.path.join(d, "meta.json")
            m = json.load(open(mp))
            checks = dict(m.get("checks", {}))
            checks.update(r["checks"])
            m["checks"] = checks
            cl = {k: v for k, v in m.get("first_violation_reported", {}).items() if checks.get(k) not in ("ok",)}
            cl.update(r["clauses"])
            m["first_violation_reported"] = cl
            r = dict(r, checks=checks)
            m["checks_evaluated_at_verif_rev"] = r["verif_rev"]
            if kind == "seeded":
                fl = sorted(k for k, v in r["checks"].items() if v == "VIOLATION")
                m["detected_by"] = fl
                m["detected_by_target_check"] = m["breaks_property"] in fl
            else:
                fl = sorted(k for k, v in r["checks"].items() if v != "ok")
                m["alarms"] = fl
                m["alarm_of_own_property"] = m["keeps_property"] in fl
            json.dump(m, open(mp, "w"), indent=1)
            n += 1
        print("updated %d meta.json files" % n)
        return 0
    rev = verif_rev()
    os.makedirs(os.path.dirname(out), exist_ok=True)
    with open(out, "w") as f:
        for d in dirs:
            i = os.path.basename(d)
            if only and i not in only:
                continue
            t0 = time.time()
            cmd = [os.path.join(VERIF, "tools", "evalmut.py"), os.path.join(d, "patch.diff"), "--no-tests"]
            if "--props" in a:
                cmd += ["--props", a[a.index("--props") + 1]]
            elif kind == "seeded" and "--all-props" not in a:
                # the check of the property the change was written against, plus every check
                # that reported it before (so that "detected by some check" is re-established)
                m = json.load(open(os.path.join(d, "meta.json")))
                props = sorted(set([m["breaks_property"]] + list(m.get("detected_by", []))))
                cmd += ["--props", ",".join(props)]
            r = subprocess.run(cmd, capture_output=True, text=True)
            o = r.stdout + r.stderr
            res, clauses = {}, {}
            for l in o.splitlines():
                if l.startswith("RESULT "):
                    res = json.loads(l[7:])
                m = re.match(r"^(C\d\d) (\S+)\s+[\d.]+s (.*)$", l)
                if m and m.group(2) != "ok":
                    clauses[m.group(1)] = m.group(3).strip()[:300]
            rec = {"id": i, "checks": res.get("checks", {}), "clauses": clauses, "verif_rev": rev, "wall_s": round(time.time() - t0, 1)}
            if not res:
                rec["error"] = o[-1500:]
            f.write(json.dumps(rec) + "\n"); f.flush()
            bad = [k for k, v in rec["checks"].items() if v != "ok"]
            print("%s %s (%.0fs)" % (i, ",".join("%s=%s" % (k, rec["checks"][k]) for k in bad) or "all ok", time.time() - t0), flush=True)
    return 0

if __name__ == "__main__":
    sys.exit(main())
